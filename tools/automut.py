#!/venv/bin/python
"""tools/automut.py - systematic first-order mutants of a816 as an audit of the checks (not a check itself).

  automut.py gen   <workdir>                 enumerate mutants of /repo's a816/ and script/ sources
  automut.py tests <workdir> [jobs]          run the repository's tests on every mutant (scratch copies)
  automut.py checks <workdir> [jobs] [wrk]   run the quick checks (most relevant first, stop at the first
                                             VIOLATION) on every mutant the tests let through
  automut.py report <workdir>                summary + the list of survivors

Everything happens in scratch copies under <workdir> (outside /repo and /verif); /repo is only read.
Mutation operators (AST level, one node per mutant): comparison flips, arithmetic / shift / bit operator
swaps, integer constant +-1, True<->False, and<->or, `not` removal, condition negation, statement deletion
(expression statements, assignments, augmented assignments), return-value removal, break<->continue.
"""
from __future__ import annotations

import ast
import json
import os
import shutil
import subprocess
import sys
import time
from concurrent.futures import ThreadPoolExecutor

REPO = os.environ.get("A816_REPO", "/repo")
FILES = [
    "a816/program.py", "a816/symbols.py", "a816/writers.py", "a816/cli.py",
    "a816/cpu/cpu_65c816.py", "a816/cpu/mapping.py",
    "a816/parse/codegen.py", "a816/parse/nodes.py", "a816/parse/parser_states.py", "a816/parse/parser.py",
    "a816/parse/scanner.py", "a816/parse/scanner_states.py", "a816/parse/tokens.py", "a816/parse/mzparser.py",
    "a816/parse/errors.py", "a816/parse/ast/expression.py", "a816/parse/ast/nodes.py",
    "script/__init__.py", "script/formulas.py", "script/pointers.py",
]

CMP = {ast.Lt: ast.LtE, ast.LtE: ast.Lt, ast.Gt: ast.GtE, ast.GtE: ast.Gt, ast.Eq: ast.NotEq, ast.NotEq: ast.Eq,
       ast.In: ast.NotIn, ast.NotIn: ast.In, ast.Is: ast.IsNot, ast.IsNot: ast.Is}
BIN = {ast.Add: ast.Sub, ast.Sub: ast.Add, ast.Mult: ast.Add, ast.FloorDiv: ast.Mult, ast.LShift: ast.RShift,
       ast.RShift: ast.LShift, ast.BitAnd: ast.BitOr, ast.BitOr: ast.BitAnd, ast.BitXor: ast.BitAnd,
       ast.Mod: ast.Mult, ast.Pow: ast.Mult}


def _skip_ids(tree):
    """Nodes inside annotations, logger calls and docstrings are not mutated."""
    skip = set()

    def mark(n):
        for x in ast.walk(n):
            skip.add(id(x))

    for n in ast.walk(tree):
        if isinstance(n, ast.AnnAssign):
            mark(n.annotation)
        elif isinstance(n, ast.arg) and n.annotation is not None:
            mark(n.annotation)
        elif isinstance(n, (ast.FunctionDef, ast.AsyncFunctionDef)):
            if n.returns is not None:
                mark(n.returns)
            for d in n.decorator_list:
                mark(d)
        if isinstance(n, ast.Call):
            f = n.func
            if isinstance(f, ast.Attribute) and isinstance(f.value, ast.Name) and f.value.id in ("logger", "logging"):
                mark(n)
            if isinstance(f, ast.Name) and f.id in ("print", "TypeVar", "NewType"):
                mark(n)
        if isinstance(n, (ast.FunctionDef, ast.ClassDef, ast.Module)) and n.body:
            b = n.body[0]
            if isinstance(b, ast.Expr) and isinstance(b.value, ast.Constant) and isinstance(b.value.value, str):
                mark(b)
        if isinstance(n, (ast.Import, ast.ImportFrom)):
            mark(n)
        if isinstance(n, ast.If):
            t = n.test
            if isinstance(t, ast.Name) and t.id == "TYPE_CHECKING":
                mark(n)
    return skip


def sites(tree):
    """Yield (node index, operator name, variant index)."""
    skip = _skip_ids(tree)
    for i, n in enumerate(ast.walk(tree)):
        if id(n) in skip:
            continue
        if isinstance(n, ast.Compare):
            for k, op in enumerate(n.ops):
                if type(op) in CMP:
                    yield i, "cmp", k
        elif isinstance(n, ast.BinOp):
            if type(n.op) in BIN:
                if isinstance(n.op, ast.Mod) and isinstance(n.left, ast.Constant) and isinstance(n.left.value, str):
                    continue
                yield i, "bin", 0
        elif isinstance(n, ast.AugAssign):
            if type(n.op) in BIN:
                yield i, "aug", 0
            yield i, "del", 0
        elif isinstance(n, ast.BoolOp):
            yield i, "bool", 0
        elif isinstance(n, ast.UnaryOp):
            if isinstance(n.op, ast.Not):
                yield i, "unnot", 0
            elif isinstance(n.op, (ast.USub, ast.Invert)):
                yield i, "unop", 0
        elif isinstance(n, ast.Constant):
            v = n.value
            if isinstance(v, bool):
                yield i, "const", 0
            elif isinstance(v, int):
                yield i, "const", 1
                yield i, "const", -1
        elif isinstance(n, (ast.If, ast.While)):
            yield i, "negate", 0
        elif isinstance(n, ast.IfExp):
            yield i, "negate", 0
        elif isinstance(n, ast.Expr):
            if isinstance(n.value, (ast.Call, ast.Await)):
                yield i, "del", 0
        elif isinstance(n, ast.Assign):
            yield i, "del", 0
        elif isinstance(n, ast.Return):
            if n.value is not None and not (isinstance(n.value, ast.Constant) and n.value.value is None):
                yield i, "retnone", 0
        elif isinstance(n, ast.Break):
            yield i, "brk", 0
        elif isinstance(n, ast.Continue):
            yield i, "brk", 0


def apply(src, idx, op, var):
    tree = ast.parse(src)
    nodes = list(ast.walk(tree))
    n = nodes[idx]
    # find the parent for replacing statements
    if op == "cmp":
        n.ops[var] = CMP[type(n.ops[var])]()
    elif op in ("bin", "aug"):
        n.op = BIN[type(n.op)]()
    elif op == "bool":
        n.op = ast.Or() if isinstance(n.op, ast.And) else ast.And()
    elif op == "unnot":
        _replace(tree, n, n.operand)
    elif op == "unop":
        _replace(tree, n, n.operand)
    elif op == "const":
        if isinstance(n.value, bool):
            n.value = not n.value
        else:
            n.value = n.value + var
    elif op == "negate":
        n.test = ast.UnaryOp(op=ast.Not(), operand=n.test)
    elif op == "del":
        _replace(tree, n, ast.Pass())
    elif op == "retnone":
        n.value = None
    elif op == "brk":
        _replace(tree, n, ast.Continue() if isinstance(n, ast.Break) else ast.Break())
    ast.fix_missing_locations(tree)
    return ast.unparse(tree) + "\n"


def _replace(tree, old, new):
    for p in ast.walk(tree):
        for f, v in ast.iter_fields(p):
            if v is old:
                setattr(p, f, new)
                return
            if isinstance(v, list):
                for k, x in enumerate(v):
                    if x is old:
                        v[k] = new
                        return
    raise RuntimeError("parent not found")


def gen(work):
    os.makedirs(work, exist_ok=True)
    out = []
    for f in FILES:
        p = os.path.join(REPO, f)
        if not os.path.exists(p):
            continue
        src = open(p).read()
        lines = src.splitlines()
        tree = ast.parse(src)
        nodes = list(ast.walk(tree))
        base = ast.unparse(tree) + "\n"
        for idx, op, var in sites(tree):
            n = nodes[idx]
            ln = getattr(n, "lineno", 0)
            try:
                m = apply(src, idx, op, var)
            except Exception as e:  # noqa: BLE001
                print("skip", f, idx, op, e)
                continue
            if m == base:
                continue
            try:
                compile(m, f, "exec")
            except SyntaxError:
                continue
            out.append({"id": len(out), "file": f, "line": ln, "op": op, "var": var, "idx": idx,
                        "text": lines[ln - 1].strip() if ln else ""})
    json.dump(out, open(os.path.join(work, "mutants.json"), "w"), indent=0)
    print("mutants:", len(out))
    from collections import Counter
    print(Counter(m["file"] for m in out))


def _copy(work, k):
    d = os.path.join(work, f"w{k}")
    if not os.path.isdir(d):
        subprocess.run(["rsync", "-a", "--exclude", ".git", "--exclude", ".benchmarks", REPO + "/", d + "/"], check=True)
    return d


def _mutate_into(d, m):
    src = open(os.path.join(REPO, m["file"])).read()
    open(os.path.join(d, m["file"]), "w").write(apply(src, m["idx"], m["op"], m["var"]))


def _restore(d, m):
    shutil.copyfile(os.path.join(REPO, m["file"]), os.path.join(d, m["file"]))


def tests(work, jobs):
    muts = json.load(open(os.path.join(work, "mutants.json")))
    resf = os.path.join(work, "tests.json")
    res = json.load(open(resf)) if os.path.exists(resf) else {}
    todo = [m for m in muts if str(m["id"]) not in res]
    import queue
    free = queue.Queue()
    for k in range(jobs):
        free.put(k)

    def one(m):
        k = free.get()
        try:
            d = _copy(work, k)
            _mutate_into(d, m)
            env = dict(os.environ, PYTHONDONTWRITEBYTECODE="1")
            try:
                r = subprocess.run(["/venv/bin/python", "-m", "pytest", "-q", "-x", "-p", "no:cacheprovider"], cwd=d,
                                   env=env, capture_output=True, text=True, timeout=90)
                ok = r.returncode == 0
            except subprocess.TimeoutExpired:
                ok = False
            _restore(d, m)
            return m["id"], ok
        finally:
            free.put(k)

    t0 = time.time()
    with ThreadPoolExecutor(jobs) as ex:
        for n, (i, ok) in enumerate(ex.map(one, todo)):
            res[str(i)] = ok
            if n % 200 == 0:
                json.dump(res, open(resf, "w"))
                print(n, len(todo), f"{time.time() - t0:.0f}s", flush=True)
    json.dump(res, open(resf, "w"))
    print("survive tests:", sum(1 for v in res.values() if v), "of", len(res))


# checks ordered by quick wall time; per-file relevance first
SPEED = ["C17", "C11", "C10", "C12", "C01", "C07", "C20", "C13", "C06", "C05", "C14", "C04", "C19", "C03", "C18",
         "C09", "C08", "C02", "C16", "C15"]
SLOW = {"C02", "C03", "C08", "C09", "C15", "C16", "C19"}
REL2 = {"a816/parse/codegen.py": ["C09", "C08", "C04"], "a816/parse/nodes.py": ["C03", "C02"], "a816/symbols.py": ["C08", "C03", "C19"],
        "a816/parse/parser_states.py": ["C09", "C16"], "a816/parse/scanner.py": ["C16", "C15"], "a816/parse/scanner_states.py": ["C16", "C09"],
        "a816/program.py": ["C03", "C19"], "a816/cpu/mapping.py": ["C03", "C19"], "a816/parse/parser.py": ["C16"], "a816/parse/tokens.py": ["C16"],
        "a816/parse/ast/expression.py": ["C09"], "a816/parse/ast/nodes.py": ["C09", "C08"]}
FAST = ["C17", "C11", "C10", "C12", "C01", "C07", "C20", "C14"]
REL = {
    "a816/writers.py": ["C11", "C12", "C13"],
    "a816/cli.py": ["C12", "C14"],
    "a816/cpu/cpu_65c816.py": ["C01", "C05", "C02"],
    "a816/cpu/mapping.py": ["C04", "C03", "C20", "C05"],
    "a816/parse/scanner.py": ["C17", "C06", "C16", "C15"],
    "a816/parse/scanner_states.py": ["C17", "C06", "C16", "C15", "C07"],
    "a816/parse/tokens.py": ["C17"],
    "a816/parse/errors.py": ["C17", "C14"],
    "a816/parse/ast/expression.py": ["C06"],
    "a816/parse/ast/nodes.py": ["C10", "C09", "C06"],
    "a816/parse/parser_states.py": ["C10", "C17", "C01", "C07", "C09", "C16"],
    "a816/parse/parser.py": ["C17", "C14"],
    "a816/parse/codegen.py": ["C10", "C09", "C07", "C13", "C18", "C08"],
    "a816/parse/nodes.py": ["C07", "C01", "C05", "C13", "C18", "C03", "C02"],
    "a816/program.py": ["C12", "C14", "C03", "C02"],
    "a816/symbols.py": ["C10", "C08", "C04", "C03", "C18"],
    "script/__init__.py": ["C20"], "script/formulas.py": ["C20"], "script/pointers.py": ["C20"],
}


def checks(work, jobs, wrk):
    muts = {m["id"]: m for m in json.load(open(os.path.join(work, "mutants.json")))}
    tres = json.load(open(os.path.join(work, "tests.json")))
    resf = os.path.join(work, "checks2.json" if os.environ.get("PHASE") == "2" else "checks.json")
    res = json.load(open(resf)) if os.path.exists(resf) else {}
    todo = [muts[int(i)] for i, ok in tres.items() if ok and i not in res]
    if os.environ.get("PHASE") == "2":
        p1 = json.load(open(os.path.join(work, "checks.json")))
        todo = [m for m in todo if str(m["id"]) in p1 and not p1[str(m["id"])]["hit"]]
    todo.sort(key=lambda m: (m["id"] * 7919) % 2903)
    import queue
    free = queue.Queue()
    for k in range(jobs):
        free.put(100 + k)

    def one(m):
        k = free.get()
        try:
            d = _copy(work, k)
            _mutate_into(d, m)
            # the checks anchored in the mutated file, then the fast general ones; ALL=1 runs every check
            rel = REL.get(m["file"], [])
            order = rel + [c for c in (SPEED if os.environ.get("ALL") else FAST) if c not in rel]
            if os.environ.get("PHASE") == "2":
                order = REL2.get(m["file"], [c for c in rel if c in SLOW][:2])  # survivors of phase 1: the slow relevant checks
            elif not os.environ.get("ALL"):
                order = [c for c in order if c not in SLOW]    # phase 1: fast checks only
            env = dict(os.environ, A816_REPO=d, VERIF_OUT=os.path.join(d, ".verif-out"), VERIF_WORKERS=str(wrk))
            hit, ran = None, []
            for c in order:
                t0 = time.time()
                try:
                    pr = subprocess.Popen(["/verif/check", c, "quick"], env=env, stdout=subprocess.PIPE, stderr=subprocess.DEVNULL, text=True,
                                          start_new_session=True)
                    try:
                        out, _ = pr.communicate(timeout=900)
                    except subprocess.TimeoutExpired:
                        import signal
                        os.killpg(pr.pid, signal.SIGKILL)
                        pr.wait()
                        raise
                    bad = pr.returncode != 0
                    line = next((l for l in out.splitlines() if l.startswith("VIOLATION")), "")
                except subprocess.TimeoutExpired:
                    bad, line = True, "TIMEOUT"
                ran.append((c, round(time.time() - t0, 1)))
                if bad:
                    hit = (c, line[:300])
                    break
            _restore(d, m)
            shutil.rmtree(os.path.join(d, ".verif-out"), ignore_errors=True)
            return m["id"], {"hit": hit, "ran": ran}
        finally:
            free.put(k)

    t0 = time.time()
    from concurrent.futures import as_completed
    with ThreadPoolExecutor(jobs) as ex:
        futs = [ex.submit(one, m) for m in todo]
        for n, f in enumerate(as_completed(futs)):
            i, r = f.result()
            res[str(i)] = r
            json.dump(res, open(resf, "w"))
            print(n, len(todo), i, muts[i]["file"], muts[i]["line"], muts[i]["op"], r["hit"][0] if r["hit"] else "SURVIVED",
                  f"{time.time() - t0:.0f}s", flush=True)
    report(work)


def report(work):
    muts = {m["id"]: m for m in json.load(open(os.path.join(work, "mutants.json")))}
    tres = json.load(open(os.path.join(work, "tests.json")))
    cres = json.load(open(os.path.join(work, "checks.json"))) if os.path.exists(os.path.join(work, "checks.json")) else {}
    print("mutants", len(muts), "killed by tests", sum(1 for v in tres.values() if not v),
          "pass tests", sum(1 for v in tres.values() if v), "checked", len(cres),
          "detected", sum(1 for v in cres.values() if v["hit"]), "survived", sum(1 for v in cres.values() if not v["hit"]))
    from collections import Counter
    print("first detecting check:", sorted(Counter(v["hit"][0] for v in cres.values() if v["hit"]).items()))
    for i, v in sorted(cres.items(), key=lambda kv: int(kv[0])):
        if not v["hit"]:
            m = muts[int(i)]
            print("SURVIVOR", i, m["file"], m["line"], m["op"], m["var"], "|", m["text"][:140])


if __name__ == "__main__":
    cmd, work = sys.argv[1], sys.argv[2]
    if cmd == "gen":
        gen(work)
    elif cmd == "tests":
        tests(work, int(sys.argv[3]) if len(sys.argv) > 3 else 16)
    elif cmd == "checks":
        checks(work, int(sys.argv[3]) if len(sys.argv) > 3 else 4, int(sys.argv[4]) if len(sys.argv) > 4 else 4)
    elif cmd == "report":
        report(work)
    elif cmd == "try":
        # automut.py try <work> <id> <check,check,...>: one mutant against the named quick checks
        m = {x["id"]: x for x in json.load(open(os.path.join(work, "mutants.json")))}[int(sys.argv[3])]
        d = _copy(work, 900 + int(sys.argv[3]) % 50)
        _mutate_into(d, m)
        env = dict(os.environ, A816_REPO=d, VERIF_OUT=os.path.join(d, ".verif-out"))
        for c in sys.argv[4].split(","):
            try:
                r = subprocess.run(["/verif/check", c, "quick"], env=env, capture_output=True, text=True, timeout=1500)
                line = next((l for l in r.stdout.splitlines() if l.startswith("VIOLATION")), "")
                print(m["id"], m["file"], m["line"], m["op"], c, "DETECTED" if r.returncode else "survived", line[:200], flush=True)
            except subprocess.TimeoutExpired:
                print(m["id"], c, "TIMEOUT", flush=True)
        shutil.rmtree(d, ignore_errors=True)
    elif cmd == "show":
        m = {x["id"]: x for x in json.load(open(os.path.join(work, "mutants.json")))}[int(sys.argv[3])]
        src = open(os.path.join(REPO, m["file"])).read()
        a = (ast.unparse(ast.parse(src)) + "\n").splitlines()
        b = apply(src, m["idx"], m["op"], m["var"]).splitlines()
        import difflib
        print(m)
        print("\n".join(difflib.unified_diff(a, b, lineterm="", n=4)))
