#!/bin/bash
# tools/trymut.sh <patch.diff> <check ids, comma separated> [--no-tests]
# Applies a patch to a scratch copy of /repo (never to /repo itself), runs the repository's own
# test suite there (must stay green for a "realistic" mutant), then the listed quick checks
# against the copy, and removes the copy.
set -u
patch="$(readlink -f "$1")"; ids="$2"; notests="${3:-}"
d=$(mktemp -d /tmp/a816mut-XXXXXX)
trap 'rm -rf "$d"' EXIT
rsync -a --exclude .git --exclude .benchmarks /repo/ "$d/"
( cd "$d" && patch -p1 --quiet < "$patch" ) || { echo "PATCH-FAILED"; exit 3; }
if [ "$notests" != "--no-tests" ]; then
  ( cd "$d" && /venv/bin/python -m pytest -q -p no:cacheprovider -x 2>&1 | tail -3 )
fi
rc=0
for id in ${ids//,/ }; do
  A816_REPO="$d" VERIF_OUT="$d/.verif-out" /verif/check "$id" quick | grep -E "^(VIOLATION|KNOWN|C[0-9]+ )" | cut -c1-400
  [ "${PIPESTATUS[0]}" -ne 0 ] && rc=1
done
exit $rc
