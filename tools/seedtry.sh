#!/bin/bash
# tools/seedtry.sh <seed dir with patch.diff + demo.py> <check ids, comma separated> [tier]
# Confirms a seeded change in scratch copies of /repo (never /repo itself):
#   1. demo passes on the unpatched copy   2. patch applies   3. repository tests pass with the patch
#   4. demo fails with the patch           5. runs the listed checks against the patched copy
set -u
seed="$(readlink -f "$1")"; ids="$2"; tier="${3:-quick}"
d=$(mktemp -d /tmp/a816seed-XXXXXX)
trap 'rm -rf "$d"' EXIT
rsync -a --exclude .git --exclude .benchmarks /repo/ "$d/"
run_demo() { ( cd "$d" && PYTHONPATH=. PYTHONDONTWRITEBYTECODE=1 timeout 120 /venv/bin/python "$seed/demo.py" >/dev/null 2>&1 ); echo $?; }
r0=$(run_demo)
( cd "$d" && patch -p1 --quiet < "$seed/patch.diff" ) || { echo "PATCH-FAILED"; exit 3; }
tests=$( cd "$d" && PYTHONDONTWRITEBYTECODE=1 timeout 600 /venv/bin/python -m pytest -q -p no:cacheprovider 2>&1 | tail -1 )
r1=$(run_demo)
echo "seed=$seed demo_unpatched_rc=$r0 demo_patched_rc=$r1 tests: $tests"
rc=0
for id in ${ids//,/ }; do
  A816_REPO="$d" VERIF_OUT="$d/.verif-out" /verif/check "$id" "$tier" | grep -E "^(VIOLATION|KNOWN|C[0-9]+ )" | cut -c1-330 | head -6
  [ "${PIPESTATUS[0]}" -ne 0 ] && rc=1
done
echo "DETECTED=$rc"
exit 0
