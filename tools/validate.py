#!/opt/veriftools/pyvenv/bin/python
"""Validate MANIFEST.json and every evidence file against the schemas in /root/.vp."""
import glob, json, sys
import jsonschema
ok = True
def val(path, schema):
    global ok
    try:
        jsonschema.validate(json.load(open(path)), json.load(open(schema)))
        print("valid  ", path)
    except Exception as e:
        ok = False
        print("INVALID", path, str(e)[:300])
val("/verif/MANIFEST.json", "/root/.vp/MANIFEST.schema.json")
for p in sorted(glob.glob("/verif/evidence/*.json")):
    val(p, "/root/.vp/EVIDENCE.schema.json")
m = json.load(open("/verif/MANIFEST.json"))
ids = {c["property_id"] for c in m["checks"]} | {c["property_id"] for c in m.get("not_applicable", [])}
missing = [f"C{i:02d}" for i in range(1, 21) if f"C{i:02d}" not in ids]
if missing:
    ok = False; print("properties neither claimed nor not_applicable:", missing)
sys.exit(0 if ok else 1)
