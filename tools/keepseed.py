#!/venv/bin/python
"""tools/keepseed.py <seed dir> <name> <property> <detected: yes|no|after-strengthening> <checks> <needs...>
Copies a confirmed seeded change into /verif/seeded/<name>/ with meta.json."""
import json, os, shutil, sys
seed, name, prop, detected, checks = sys.argv[1:6]
needs = " ".join(sys.argv[6:])
dst = os.path.join("/verif/seeded", name)
os.makedirs(dst, exist_ok=True)
for f in ("patch.diff", "demo.py", "notes.md"):
    if os.path.exists(os.path.join(seed, f)):
        shutil.copy(os.path.join(seed, f), os.path.join(dst, f))
meta = {
    "property": prop,
    "source": "independent sub-agent given only the property text and a scratch worktree",
    "needs_to_manifest": needs,
    "confirmed": "tools/seedtry.sh: demo passes on the unpatched copy, patch applies, repository test suite passes with the patch "
                 "(103 passed), demo fails with the patch",
    "checks_run": checks.split(","),
    "detected_by_quick_check": detected,
}
json.dump(meta, open(os.path.join(dst, "meta.json"), "w"), indent=1)
print("kept", dst)
