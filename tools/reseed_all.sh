#!/bin/bash
# tools/reseed_all.sh [name-glob]   re-runs every kept seed against the checks recorded in its meta.json and reports
# whether it is (still) detected.  Output: one line per seed;  exit 1 if any seed is no longer detected.
cd /verif
rc=0
for d in seeded/${1:-*}/; do
  name=$(basename "$d")
  checks=$(/venv/bin/python -c "import json,sys; print(','.join(json.load(open('$d/meta.json'))['checks_run']))")
  out=$(tools/seedtry.sh "$d" "$checks" 2>&1)
  det=$(echo "$out" | grep -o "DETECTED=[01]" | tail -1)
  conf=$(echo "$out" | grep -o "demo_unpatched_rc=[0-9]* demo_patched_rc=[0-9]* tests: [0-9]* passed" | head -1)
  echo "$name checks=$checks $det :: $conf"
  [ "$det" = "DETECTED=1" ] || rc=1
done
exit $rc
