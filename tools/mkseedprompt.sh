#!/bin/bash
# tools/mkseedprompt.sh <ID>  : scratch worktree /tmp/wt/<ID> at /repo HEAD + /tmp/seed-out/<ID>/PROMPT.txt (property text only)
set -e
id="$1"
mkdir -p /tmp/wt /tmp/seed-out/$id
[ -d /tmp/wt/$id ] || git -C /repo worktree add --detach /tmp/wt/$id HEAD -q
/venv/bin/python - "$id" <<'PY'
import json, sys
id = sys.argv[1]
for l in open('/verif/properties.jsonl'):
    p = json.loads(l)
    if p['id'] == id:
        prop = (f"Property {p['id']}: {p['title']}\n\nStatement: {p['statement']}\n\nQuantified over: {p['quantifier']['text']}\n\n"
                f"Why the existing tests cannot settle it: {p['why_tests_cant']}\n\nCode the property is anchored in: {', '.join(p['anchors']['files'])}\n"
                "Mechanisms: " + "; ".join(f"{m['name']} ({m['where']})" for m in p['anchors']['mechanism']) +
                "\nObserve at: " + "; ".join(p['anchors'].get('observe_at') or []) + "\n")
t = open('/verif/tools/seed_prompt_template.txt').read().replace('@ID@', id).replace('@PROPERTY@', prop)
open(f'/tmp/seed-out/{id}/PROMPT.txt', 'w').write(t)
print("prompt bytes", len(t))
PY
