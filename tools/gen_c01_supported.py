#!/venv/bin/python
"""Freeze the set of ISA-defined (mnemonic, shape, width) cells the current /repo tree accepts.
Run ONCE at the pinned commit; the result (mc/ref/c01_supported.json) is committed and is the
oracle for "every combination in the assembler's supported set keeps assembling"."""
import json, os, sys
sys.path.insert(0, "/verif"); sys.path.insert(0, os.environ.get("A816_REPO", "/repo"))
from mc import impl
from mc.checks import c01
from mc.ref import isa
impl.setup_worker()
cells = set()
for mn in isa.MNEMONICS:
    c01.run_lit(mn, "lower", "thorough", collect=cells)
cells = sorted(cells, key=lambda t: (t[0], t[1], t[2] or 0))
with open(c01.SUPPORTED_PATH, "w") as f:
    json.dump({"note": "ISA-defined cells accepted by manz/a816 at a407082 (+ora #v w2, accepted with a wrong byte there)",
               "cells": [list(c) for c in cells]}, f, indent=0)
sys.stderr.write(f"{len(cells)} cells\n")
