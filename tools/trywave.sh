#!/bin/bash
# tools/trywave.sh <wave> [ids...]   try every seed of a wave against its own property's check; one line per seed
wave="$1"; shift
ids="${@:-C01 C02 C03 C04 C05 C06 C07 C08 C09 C10 C11 C12 C13 C14 C15 C16 C17 C18 C19 C20}"
for id in $ids; do for k in 1 2 3; do
  d=/tmp/seed-out/${id}w${wave}/$k
  [ -f $d/patch.diff ] || { echo "$id/$k missing"; continue; }
  out=$(/verif/tools/seedtry.sh $d $id 2>&1)
  echo "$id/$k $(echo "$out" | grep -o 'demo_unpatched_rc=[0-9]* demo_patched_rc=[0-9]* tests: [0-9a-z ,]*passed' | head -1) $(echo "$out" | grep -o 'DETECTED=[01]\|PATCH-FAILED' | tail -1) $(echo "$out" | grep -o 'key=[^ ]*' | head -1 | cut -c1-90)"
done; done
