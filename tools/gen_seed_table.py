#!/venv/bin/python
"""Regenerate the seeded-change table in DESIGN.md (between the SEEDS markers) from seeded/*/meta.json."""
import glob, json, os, re
rows = []
for d in sorted(glob.glob("/verif/seeded/*")):
    m = json.load(open(os.path.join(d, "meta.json")))
    name = os.path.basename(d)
    needs = m["needs_to_manifest"].replace("|", "/").replace("\n", " ")
    rows.append(f"| {name} | {m['property']} | {needs} | {', '.join(m['checks_run'])} | {m['detected_by_quick_check']} |")
table = ("| seed | property | what it needs in order to manifest | caught by | detected |\n|---|---|---|---|---|\n" + "\n".join(rows) + "\n")
p = "/verif/DESIGN.md"
s = open(p).read()
s = re.sub(r"<!-- SEEDS-BEGIN -->.*<!-- SEEDS-END -->", "<!-- SEEDS-BEGIN -->\n" + table.replace("\\", "\\\\") + "<!-- SEEDS-END -->", s, flags=re.S)
open(p, "w").write(s)
n = len(rows); at_once = sum(1 for r in rows if r.endswith("| yes |")); print(f"{n} seeds, {at_once} detected at once, {n - at_once} after strengthening")
