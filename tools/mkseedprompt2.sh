#!/bin/bash
# tools/mkseedprompt2.sh <ID> <wave>  : like mkseedprompt.sh, output dir /tmp/seed-out/<ID>w<wave>, worktree /tmp/wt/<ID>w<wave>,
# and the prompt lists the changes already known for that property (descriptions only) so that new ones differ.
set -e
id="$1"; wave="$2"; tag="${id}w${wave}"
mkdir -p /tmp/wt /tmp/seed-out/$tag
[ -d /tmp/wt/$tag ] || git -C /repo worktree add --detach /tmp/wt/$tag HEAD -q
/venv/bin/python - "$id" "$tag" <<'PY'
import glob, json, os, sys
id, tag = sys.argv[1], sys.argv[2]
for l in open('/verif/properties.jsonl'):
    p = json.loads(l)
    if p['id'] == id:
        prop = (f"Property {p['id']}: {p['title']}\n\nStatement: {p['statement']}\n\nQuantified over: {p['quantifier']['text']}\n\n"
                f"Why the existing tests cannot settle it: {p['why_tests_cant']}\n\nCode the property is anchored in: {', '.join(p['anchors']['files'])}\n"
                "Mechanisms: " + "; ".join(f"{m['name']} ({m['where']})" for m in p['anchors']['mechanism']) +
                "\nObserve at: " + "; ".join(p['anchors'].get('observe_at') or []) + "\n")
known = []
for d in sorted(glob.glob(f"/verif/seeded/{id}-*")):
    m = json.load(open(os.path.join(d, "meta.json")))
    known.append("  - " + m["needs_to_manifest"].split(";")[0].split(" Caught")[0].split(" caught")[0].strip())
t = open('/verif/tools/seed_prompt_template.txt').read().replace('@ID@', tag).replace('@PROPERTY@', prop)
extra = ("\nCHANGES ALREADY KNOWN for this property (from an earlier round; do NOT repeat these or close variants of them - find different "
         "mechanisms, different code locations, different triggering conditions):\n" + "\n".join(known) + "\n\nBe inventive: think about "
         "interactions between features, rarely used directives, boundary values, state carried between passes or between calls, "
         "error paths, and refactors that preserve behaviour on every common input.\n")
t = t.replace("TASK. Produce THREE", extra + "\nTASK. Produce THREE")
open(f'/tmp/seed-out/{tag}/PROMPT.txt', 'w').write(t)
print(tag, "prompt bytes", len(t))
PY
