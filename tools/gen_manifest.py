#!/venv/bin/python
"""Regenerate /verif/MANIFEST.json from the check modules' own metadata (keeps both in sync)."""
import importlib
import json
import os
import sys

ROOT = os.path.dirname(os.path.dirname(os.path.abspath(__file__)))
sys.path.insert(0, ROOT)
sys.path.insert(0, os.environ.get("A816_REPO", "/repo"))

BASELINE = ("cd /repo && /venv/bin/python -m pytest -ra -q -p no:cacheprovider --timeout=900 "
            "--continue-on-collection-errors")

checks = []
na = []
served = []
for i in range(1, 21):
    pid = "C%02d" % i
    path = os.path.join(ROOT, "mc", "checks", pid.lower() + ".py")
    if not os.path.exists(path):
        na.append({"property_id": pid, "reason": "check not built yet (planned: bounded exhaustive exploration, DESIGN.md section 2)"})
        continue
    mod = importlib.import_module("mc.checks." + pid.lower())
    served.append(pid)
    checks.append({
        "property_id": pid,
        "quick_cmd": f"./check {pid} quick",
        "thorough_cmd": f"./check {pid} thorough",
        "evidence_file": f"/verif/evidence/{pid}.json",
        "replay_cmd_template": f"./check {pid} --replay {{path}}",
        "engine": "mc-explorer",
        "level_claimed": {"category": mod.LEVEL, "text": mod.LEVEL_TEXT, "design_ref": f"DESIGN.md section 2, {pid}"},
        "level_note": mod.LEVEL_NOTE,
        "technique": mod.TECHNIQUE,
    })

manifest = {
    "version": 1,
    "setup_cmd": "cd /verif && /venv/bin/python -c 'import sys; sys.path.insert(0, \"/verif\"); import mc.runner, mc.pool, mc.impl' && chmod +x /verif/check",
    "hooks": {
        "guard": "A816_VERIF",
        "enable": "no source hooks: the checks import a816 straight from /repo's working tree (PYTHONPATH=/repo); ./check exports A816_VERIF=1 for form only",
        "baseline_off_cmd": BASELINE,
        "source_commits": [],
        "add_only": True,
    },
    "engines": [{
        "name": "mc-explorer",
        "path": "/verif/mc",
        "serves_properties": served,
        "kind_free_text": "hand-written bounded exhaustive explorer for Python: deterministic case enumeration sharded over forked "
                          "workers, every case executed on the real a816 code and compared with an independent reference model "
                          "or a metamorphic twin; replay files + determinism gate",
    }],
    "checks": checks,
    "not_applicable": na,
    "notes": "All checks run the current /repo working tree directly (pure Python, nothing to build). "
             "Known findings / fixed defects: /verif/known_findings.json. Design: /verif/DESIGN.md.",
}
with open(os.path.join(ROOT, "MANIFEST.json"), "w") as f:
    json.dump(manifest, f, indent=1)
    f.write("\n")
print("checks:", served, "not_applicable:", [x["property_id"] for x in na])
