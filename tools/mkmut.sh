#!/bin/bash
# tools/mkmut.sh <name> <file relative to repo> <python expr: s -> s'>   creates /verif/mutants/<name>.diff
set -e
name="$1"; file="$2"; expr="$3"
d=$(mktemp -d /tmp/a816mk-XXXXXX); trap 'rm -rf "$d"' EXIT
mkdir -p "$d/a/$(dirname "$file")" "$d/b/$(dirname "$file")"
cp "/repo/$file" "$d/a/$file"
/venv/bin/python - "$d/a/$file" "$d/b/$file" "$expr" <<'PY'
import sys
s = open(sys.argv[1]).read()
t = eval(sys.argv[3], {"s": s})
assert t != s, "mutation did not change the file"
open(sys.argv[2], "w").write(t)
PY
( cd "$d" && diff -u "a/$file" "b/$file" > "/verif/mutants/$name.diff" ) || true
echo "wrote mutants/$name.diff ($(grep -c '^[+-][^+-]' /verif/mutants/$name.diff) changed lines)"
