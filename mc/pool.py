"""Deterministic sharded execution of an exhaustive case enumeration over forked workers.

Every worker enumerates the *same* deterministic case sequence and claims the next unclaimed
case index from a shared counter; cases are independent and results are merged by index, so the
outcome does not depend on scheduling.  Nothing is sampled: every case of the enumeration is executed by
exactly one worker.
"""
from __future__ import annotations

import collections
import hashlib
import importlib
import multiprocessing as mp
import os
import pickle
import time
import traceback

from . import impl

MAX_VIOL_PER_KEY = 3
MAX_VIOL_KEYS = 200
CASE_TIMEOUT = 120.0


def h64(obj) -> int:
    if not isinstance(obj, (bytes, str)):
        obj = repr(obj)
    if isinstance(obj, str):
        obj = obj.encode("utf-8", "surrogatepass")
    return int.from_bytes(hashlib.blake2b(obj, digest_size=8).digest(), "big")


class Agg:
    def __init__(self):
        self.evals = 0
        self.cases = 0
        self.nt_keys = set()
        self.nt_count = 0  # for chunked cases that count their own distinct non-trivial items
        self.outcomes = collections.Counter()
        self.states = set()
        self.state_count = 0
        self.transitions = 0
        self.traces = 0
        self.max_depth = 0
        self.viol = {}  # key -> [count, [(idx, pickled case, msg, detail)]]
        self.samples = {}  # outcome -> (idx, described)
        self.timeouts = 0
        self.extra = collections.Counter()

    def add(self, mod, idx, case, res):
        self.cases += 1
        self.evals += res.get("evals", 1)
        nt = res.get("nontrivial", 0)
        if "nt_count" in res:
            self.nt_count += res["nt_count"]
        elif nt:
            for k in res.get("nt_keys") or (case,):
                self.nt_keys.add(h64(k))
        oc = res.get("outcome")
        if isinstance(oc, (list, tuple, set)):
            ocs = list(oc)
        else:
            ocs = [oc]
        if not ocs:
            ocs = ["(no outcome)"]
        for o in ocs:
            self.outcomes[str(o)] += 1
        for s in res.get("states", ()):
            self.states.add(h64(s))
        self.state_count += res.get("state_count", 0)
        self.transitions += res.get("transitions", 0)
        self.traces += res.get("traces", res.get("evals", 1))
        self.max_depth = max(self.max_depth, res.get("depth", 0))
        for k, v in (res.get("extra") or {}).items():
            self.extra[k] += v
        o0 = str(ocs[0])
        if o0 not in self.samples and len(self.samples) < 12:
            self.samples[o0] = (idx, mod.describe(case, res))
        for v in res.get("violations", ()):
            key = v["key"]
            ent = self.viol.get(key)
            if ent is None:
                if len(self.viol) >= MAX_VIOL_KEYS:
                    key = "overflow:more-than-%d-distinct-violation-keys" % MAX_VIOL_KEYS
                    ent = self.viol.setdefault(key, [0, []])
                else:
                    ent = self.viol[key] = [0, []]
            ent[0] += 1
            if len(ent[1]) < MAX_VIOL_PER_KEY:
                ent[1].append((idx, pickle.dumps(case), v.get("msg", ""), mod.describe(case, res)))

    def dump(self):
        return self.__dict__

    @staticmethod
    def merge(dumps):
        m = Agg()
        for d in dumps:
            m.evals += d["evals"]
            m.cases += d["cases"]
            m.nt_keys |= d["nt_keys"]
            m.nt_count += d["nt_count"]
            m.outcomes.update(d["outcomes"])
            m.states |= d["states"]
            m.state_count += d["state_count"]
            m.transitions += d["transitions"]
            m.traces += d["traces"]
            m.max_depth = max(m.max_depth, d["max_depth"])
            m.timeouts += d["timeouts"]
            m.extra.update(d["extra"])
            for o, (idx, desc) in d["samples"].items():
                if o not in m.samples or idx < m.samples[o][0]:
                    m.samples[o] = (idx, desc)
            for k, (cnt, lst) in d["viol"].items():
                ent = m.viol.setdefault(k, [0, []])
                ent[0] += cnt
                ent[1] = sorted(ent[1] + lst, key=lambda t: t[0])[:MAX_VIOL_PER_KEY]
        return m


def _run_one(mod, case):
    ok, res = impl.guarded(mod.run_case, case, timeout=getattr(mod, "CASE_TIMEOUT", CASE_TIMEOUT))
    if not ok:
        res = {"outcome": "HARNESS-TIMEOUT", "violations": [
            {"key": "harness:case-timeout", "msg": "case did not finish within the per-case wall-clock cap"}]}
    return res


def _worker(w, n, modname, tier, seed, conn, counter):
    try:
        impl.setup_worker()
        mod = importlib.import_module(modname)
        if hasattr(mod, "setup"):
            mod.setup(tier, seed)
        agg = Agg()
        hung = 0
        # every worker walks the same deterministic enumeration and claims the next unclaimed index, so each case
        # is executed exactly once whatever the relative speed of the workers (cases are independent of each other)
        with counter.get_lock():
            mine = counter.value
            counter.value += 1
        for idx, case in enumerate(mod.cases(tier, seed)):
            if idx != mine:
                continue
            res = _run_one(mod, case)
            agg.add(mod, idx, case, res)
            if res.get("outcome") == "HARNESS-TIMEOUT":
                hung += 1
                if hung >= 3:
                    # the code under test hangs case after case: the run already fails, do not wait 2 minutes per case
                    with counter.get_lock():
                        counter.value += 10 ** 9
                    break
            with counter.get_lock():
                mine = counter.value
                counter.value += 1
        conn.send(("ok", agg.dump()))
    except BaseException:  # noqa: BLE001
        conn.send(("crash", traceback.format_exc()))
    finally:
        impl.teardown_worker()
        conn.close()


def run_parallel(modname, tier, seed, nworkers=None):
    nworkers = nworkers or int(os.environ.get("VERIF_WORKERS", os.cpu_count() or 4))
    mod = importlib.import_module(modname)
    nworkers = min(nworkers, getattr(mod, "MAX_WORKERS", nworkers))
    ctx = mp.get_context("fork")
    procs = []
    counter = ctx.Value("q", 0)
    for w in range(nworkers):
        pc, cc = ctx.Pipe(duplex=False)
        p = ctx.Process(target=_worker, args=(w, nworkers, modname, tier, seed, cc, counter))
        p.start()
        cc.close()
        procs.append((p, pc))
    dumps = []
    crashes = []
    for p, pc in procs:
        try:
            kind, payload = pc.recv()
        except EOFError:
            kind, payload = "crash", "worker died without reporting (exit code %s)" % p.exitcode
        p.join()
        if kind == "ok":
            dumps.append(payload)
        else:
            crashes.append(payload)
    if crashes:
        raise RuntimeError("worker crashed:\n" + crashes[0])
    return Agg.merge(dumps)


def replay_in_fresh_process(modname, case_pickle, tier="quick", seed=0):
    """Re-execute one case in a new process (determinism gate and --replay)."""
    ctx = mp.get_context("fork")
    pc, cc = ctx.Pipe(duplex=False)

    def body():
        try:
            impl.setup_worker()
            mod = importlib.import_module(modname)
            if hasattr(mod, "setup"):
                mod.setup(tier, seed)
            case = pickle.loads(case_pickle)
            res = _run_one(mod, case)
            cc.send(("ok", {"violations": res.get("violations", []), "outcome": str(res.get("outcome")),
                            "describe": mod.describe(case, res)}))
        except BaseException:  # noqa: BLE001
            cc.send(("crash", traceback.format_exc()))
        finally:
            impl.teardown_worker()

    p = ctx.Process(target=body)
    p.start()
    cc.close()
    try:
        kind, payload = pc.recv()
    except EOFError:
        kind, payload = "crash", "replay process died"
    p.join()
    if kind != "ok":
        raise RuntimeError(payload)
    return payload


def now():
    return time.monotonic()
