"""Abstract program -> a816 source text.

Statements are tuples (see mc/ref/asm.py for the list); expressions are mc/ref/expr.py trees.
The real assembler sees only the text produced here; the reference sees only the abstract program.
"""
from __future__ import annotations

from mc.ref import expr as rx
from mc.ref import isa


def ex(e):
    if isinstance(e, int):
        return hex(e) if e >= 10 else str(e)
    if isinstance(e, str):
        return e
    return rx.render(e, "min", "")


def render(stmts, indent=0):
    out = []
    pad = "    " * indent
    for s in stmts:
        k = s[0]
        if k == "org":
            out.append(f"{pad}*={ex(s[1])}")
        elif k == "reloc":
            out.append(f"{pad}@={ex(s[1])}")
        elif k == "label":
            out.append(f"{pad}{s[1]}:")
        elif k == "eq":
            out.append(f"{pad}{s[1]} = {ex(s[2])}")
        elif k == "const":
            out.append(f"{pad}{s[1]} := {ex(s[2])}")
        elif k == "data":
            out.append(f"{pad}.{s[1]} " + ", ".join(ex(e) for e in s[2]))
        elif k == "ascii":
            out.append(f"{pad}.ascii '{s[1]}'")
        elif k == "text":
            out.append(f"{pad}.text '{s[1]}'")
        elif k == "ins":
            _, mn, suffix, shape, e = s
            sfx = "." + suffix if suffix else ""
            if shape is None:
                out.append(f"{pad}{mn}{sfx}")
            else:
                out.append(f"{pad}{mn}{sfx} {isa.render_operand(shape, ex(e))}")
        elif k == "bra":
            out.append(f"{pad}{s[1]} {ex(s[2])}")
        elif k == "block":
            out.append(f"{pad}{{")
            out += render(s[1], indent + 1)
            out.append(f"{pad}}}")
        elif k == "scope":
            out.append(f"{pad}.scope {s[1]} {{")
            out += render(s[2], indent + 1)
            out.append(f"{pad}}}")
        elif k == "macro":
            out.append(f"{pad}.macro {s[1]}({', '.join(s[2])}) {{")
            out += render(s[3], indent + 1)
            out.append(f"{pad}}}")
        elif k == "call":
            args = []
            for a in s[2]:
                if isinstance(a, tuple) and a and a[0] == "code":
                    args.append("{\n" + "\n".join(render(a[1], indent + 1)) + f"\n{pad}}}")
                else:
                    args.append(ex(a))
            out.append(f"{pad}{s[1]}({', '.join(args)})")
        elif k == "splice":
            out.append(f"{pad}{{{{{s[1]}}}}}")
        elif k == "if":
            out.append(f"{pad}.if {ex(s[1])} {{")
            out += render(s[2], indent + 1)
            if s[3] is not None:
                out.append(f"{pad}}} else {{")
                out += render(s[3], indent + 1)
            out.append(f"{pad}}}")
        elif k == "for":
            out.append(f"{pad}.for {s[1]} := {ex(s[2])}, {ex(s[3])} {{")
            out += render(s[4], indent + 1)
            out.append(f"{pad}}}")
        elif k == "incbin":
            out.append(f"{pad}.incbin '{s[1]}'")
        elif k == "table":
            out.append(f"{pad}.table '{s[1]}'")
        elif k == "include":
            out.append(f"{pad}.include '{s[1]}'")
        elif k == "incips":
            out.append(f"{pad}.include_ips '{s[1]}', {ex(s[2])}")
        elif k == "map":
            from mc.ref import bus as refbus
            out.append(pad + refbus.map_line(*s[1]))
        elif k == "raw":
            out.append(pad + s[1])
        elif k == "comment":
            out.append(f"{pad}; {s[1]}")
        else:
            raise ValueError(f"unknown statement {s!r}")
    return out


def source(stmts):
    return "\n".join(render(stmts)) + "\n"


def files_of(stmts, acc=None):
    """Auxiliary source files needed by ("include", fname, body) statements, rendered recursively."""
    acc = {} if acc is None else acc
    for s in stmts:
        k = s[0]
        if k == "include":
            acc[s[1]] = source(s[2])
            files_of(s[2], acc)
        elif k in ("block",):
            files_of(s[1], acc)
        elif k == "scope":
            files_of(s[2], acc)
        elif k == "macro":
            files_of(s[3], acc)
        elif k == "if":
            files_of(s[2], acc)
            if s[3]:
                files_of(s[3], acc)
        elif k == "for":
            files_of(s[4], acc)
        elif k == "call":
            for a in s[2]:
                if isinstance(a, tuple) and a and a[0] == "code":
                    files_of(a[1], acc)
    return acc
