"""Deterministic step counter for the repository's code (sys.monitoring, Python 3.12).

Counts PY_START, JUMP and BRANCH events whose code object lives under the repository root; events of any other
code are disabled at their location.  `run(fn, fuel)` executes fn() and raises nothing itself: it returns
(status, events_used, value) with status 'done' | 'raised' | 'exhausted'.  No wall-clock time enters the verdict.
"""
from __future__ import annotations

import sys

from . import impl

mon = sys.monitoring
TOOL = 4
_EVENTS = mon.events.PY_START | mon.events.JUMP | mon.events.BRANCH
_repo_prefix = impl.REPO.rstrip("/") + "/"
_is_repo: dict = {}
_left = 0
_installed = False


class FuelExhausted(BaseException):
    pass


def _check(code):
    global _left
    r = _is_repo.get(code)
    if r is None:
        r = _is_repo[code] = code.co_filename.startswith(_repo_prefix)
    if not r:
        return mon.DISABLE
    _left -= 1
    if _left < 0:
        raise FuelExhausted()
    return None


def _on_start(code, offset):
    return _check(code)


def _on_jump(code, offset, dest):
    return _check(code)


def install():
    global _installed
    if _installed:
        return
    mon.use_tool_id(TOOL, "a816-fuel")
    mon.register_callback(TOOL, mon.events.PY_START, _on_start)
    mon.register_callback(TOOL, mon.events.JUMP, _on_jump)
    mon.register_callback(TOOL, mon.events.BRANCH, _on_jump)
    _installed = True


def run(fn, fuel):
    """Execute fn() with a budget of `fuel` monitored events."""
    global _left
    install()
    _left = fuel
    mon.set_events(TOOL, _EVENTS)
    try:
        try:
            value = fn()
            status = "done"
        except FuelExhausted:
            value = None
            status = "exhausted"
        except impl.Timeout:
            raise
        except BaseException as e:  # noqa: BLE001
            if isinstance(e, (KeyboardInterrupt, SystemExit)):
                raise
            value = e
            status = "raised"
    finally:
        mon.set_events(TOOL, 0)
    return status, fuel - max(_left, 0), value
