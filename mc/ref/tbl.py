"""Reference table codec (written from the C18 statement): longest-match tokenizer and decoder."""
from __future__ import annotations

import re

JOKER = re.compile(r"\[0x([0-9a-fA-F]+)\]")


def encode(entries: dict[str, bytes], text: str):
    """Returns (bytes, matched entry texts in order, used_escape)."""
    out = bytearray()
    matched = []
    esc = False
    maxlen = max((len(k) for k in entries), default=0)
    i = 0
    while i < len(text):
        m = JOKER.match(text, i)
        if m:
            out.append(int(m.group(1), 16))
            esc = True
            i = m.end()
            continue
        for ln in range(min(maxlen, len(text) - i), 0, -1):
            code = entries.get(text[i:i + ln])
            if code is not None:
                out += code
                matched.append(text[i:i + ln])
                i += ln
                break
        else:
            i += 1  # character without a table entry: skipped
    return bytes(out), matched, esc


def unique_prefix_free(entries: dict[str, bytes]) -> bool:
    codes = list(entries.values())
    if len(set(codes)) != len(codes):
        return False
    for a in codes:
        for b in codes:
            if a is not b and b.startswith(a):
                return False
    return True


def table_file(entries: dict[str, bytes]) -> str:
    return "".join(f"{code.hex().upper()}={text}\n" for text, code in entries.items())
