"""Reference expression model: trees, evaluation with the precedence stated in C06, renderers.

Tree:  ('n', value, text) | ('u', op, child) | ('b', op, left, right)
"""
from __future__ import annotations

import itertools

BINOPS = ["*", "+", "-", "<<", ">>", "&", "|"]
PREC = {"*": 1, "+": 2, "-": 2, "<<": 3, ">>": 3, "&": 4, "|": 5}
UNOPS = ["-", "~"]


class Undefined(Exception):
    """The statement does not define this evaluation (~ of negative / >32-bit, negative or huge shift)."""


def evaluate(t, lookup=None):
    """lookup(name) -> int for ('s', name) leaves (raises whatever it likes for unknown names)."""
    k = t[0]
    if k == "n":
        return t[1]
    if k == "s":
        return lookup(t[1])
    if k == "u":
        v = evaluate(t[2], lookup)
        if t[1] == "-":
            return -v
        if -(1 << 32) < v < 0:
            # whichever of 8/16/32 bits is taken to "hold" a negative v, its complement is -v-1 (it fits in the bits of |v|)
            return -v - 1
        if v < 0 or v >= 1 << 32:
            raise Undefined("~ of a value beyond 32 bits")
        bits = 8 if v < 1 << 8 else 16 if v < 1 << 16 else 32
        return (~v) & ((1 << bits) - 1)
    a = evaluate(t[2], lookup)
    b = evaluate(t[3], lookup)
    op = t[1]
    if op == "*":
        return a * b
    if op == "+":
        return a + b
    if op == "-":
        return a - b
    if op == "&":
        return a & b
    if op == "|":
        return a | b
    if b < 0 or b > 64:
        raise Undefined("shift amount")
    return a << b if op == "<<" else a >> b


def ops_used(t, acc=None):
    acc = set() if acc is None else acc
    if t[0] == "u":
        acc.add("u" + t[1])
        ops_used(t[2], acc)
    elif t[0] == "b":
        acc.add(t[1])
        ops_used(t[2], acc)
        ops_used(t[3], acc)
    return acc


def levels_used(t):
    lv = set()
    for o in ops_used(t):
        lv.add(0 if o.startswith("u") else PREC[o])
    return lv


def render(t, style="min", sp=""):
    """style 'min': minimal parentheses; 'full': every sub-expression parenthesised.
    sp: '' no spaces, ' ' spaces around binary operators, 'x' also after unary ops / inside parentheses."""
    pad = " " if sp == "x" else ""
    bsp = " " if sp in (" ", "x") else ""
    lsp = " " if sp == "l" else bsp   # "l": a blank BEFORE each binary operator only;  "r": only after it
    rsp = " " if sp == "r" else bsp

    def par(s):
        return f"({pad}{s}{pad})"

    def go(t):
        k = t[0]
        if k == "n":
            return par(t[2]) if style == "full" else t[2]
        if k == "s":
            return par(t[1]) if style == "full" else t[1]
        if k == "u":
            c = t[2]
            s = go(c)
            if style == "min" and c[0] == "b":
                s = par(s)
            r = t[1] + pad + s
            return par(r) if style == "full" else r
        op = t[1]
        lt, rt = t[2], t[3]
        ls, rs = go(lt), go(rt)
        if style == "min":
            if lt[0] == "b" and PREC[lt[1]] > PREC[op]:
                ls = par(ls)
            if rt[0] == "b" and PREC[rt[1]] >= PREC[op]:
                rs = par(rs)
        r = f"{ls}{lsp}{op}{rsp}{rs}"
        return par(r) if style == "full" else r

    return go(t)


def skeletons(nbin):
    """All binary tree shapes with nbin internal nodes; leaves are None placeholders."""
    if nbin == 0:
        return [None]
    out = []
    for left in range(nbin):
        for ls in skeletons(left):
            for rs in skeletons(nbin - 1 - left):
                out.append((ls, rs))
    return out


def count_nodes(sk):
    if sk is None:
        return 1
    return 1 + count_nodes(sk[0]) + count_nodes(sk[1])


UNARY_PREFIXES = {0: [()], 1: [("-",), ("~",)], 2: [("-", "-"), ("-", "~"), ("~", "-"), ("~", "~")]}


def unary_placements(nnodes, max_un):
    """All assignments node-index -> prefix tuple with at most max_un unary operators in total."""
    res = [{}]
    if max_un >= 1:
        for i in range(nnodes):
            for p in UNARY_PREFIXES[1]:
                res.append({i: p})
    if max_un >= 2:
        for i in range(nnodes):
            for p in UNARY_PREFIXES[2]:
                res.append({i: p})
        for i, j in itertools.combinations(range(nnodes), 2):
            for p in UNARY_PREFIXES[1]:
                for q in UNARY_PREFIXES[1]:
                    res.append({i: p, j: q})
    return res


def build(sk, ops, leaves, unary):
    """Instantiate a skeleton: ops consumed in pre-order, leaves left to right, node indices pre-order."""
    ops = list(ops)
    leaves = list(leaves)
    counter = [0]

    def go(s):
        idx = counter[0]
        counter[0] += 1
        if s is None:
            node = leaves.pop(0)
        else:
            op = ops.pop(0)
            left = go(s[0])
            right = go(s[1])
            node = ("b", op, left, right)
        for u in reversed(unary.get(idx, ())):
            node = ("u", u, node)
        return node

    return go(sk)


def trees(nbin, max_un, leaves):
    for sk in skeletons(nbin):
        nn = count_nodes(sk)
        for ops in itertools.product(BINOPS, repeat=nbin):
            for un in unary_placements(nn, max_un):
                yield build(sk, ops, leaves[: nbin + 1], un)


def names(t, acc=None):
    """Symbol names mentioned by an expression tree."""
    acc = [] if acc is None else acc
    if t[0] == "s":
        acc.append(t[1])
    elif t[0] == "u":
        names(t[2], acc)
    elif t[0] == "b":
        names(t[2], acc)
        names(t[3], acc)
    return acc


def num(v, text=None):
    return ("n", v, text if text is not None else (hex(v) if v >= 10 else str(v)))


def sym(name):
    return ("s", name)
