"""Reference model of the address mapping (written from the C04 statement, not from a816).

A bus is an ordered list of declarations; each declaration covers a primary bank range and
optionally a mirror bank range, has a bank window [win_lo, win_lo+size) and is ROM or RAM.
Later declarations shadow earlier ones bank by bank (HiROM: RAM 7E/7F shadows ROM 40-7F).
"""
from __future__ import annotations


class Unmapped(Exception):
    pass


class Rng:
    __slots__ = ("ident", "first", "last", "size", "win_lo", "ram", "kind")

    def __init__(self, ident, first, last, size, win_lo, ram, kind):
        self.ident = ident
        self.first = first
        self.last = last
        self.size = size
        self.win_lo = win_lo
        self.ram = ram
        self.kind = kind  # 'primary' | 'mirror'

    @property
    def nbanks(self):
        return self.last - self.first + 1

    def __repr__(self):
        return f"Rng({self.ident},{self.first:02x}-{self.last:02x},{self.size:#x},{'ram' if self.ram else 'rom'},{self.kind})"


class RefBus:
    def __init__(self, name=""):
        self.name = name
        self.bank = {}  # bank -> Rng
        self.decls = []

    def map(self, ident, banks, size, ram=False, mirror=None):
        """size: 0x8000 (32K window at 0x8000) or 0x10000 (64K window at 0)."""
        win_lo = 0x8000 if size == 0x8000 else 0
        r = Rng(ident, banks[0], banks[1], size, win_lo, ram, "primary")
        for b in range(banks[0], banks[1] + 1):
            self.bank[b] = r
        self.decls.append((ident, banks, size, ram, mirror))
        if mirror:
            m = Rng(ident, mirror[0], mirror[1], size, win_lo, ram, "mirror")
            for b in range(mirror[0], mirror[1] + 1):
                self.bank[b] = m
        return self

    # -- laws -------------------------------------------------------------
    def rng(self, addr):
        r = self.bank.get(addr >> 16)
        if r is None:
            raise Unmapped(hex(addr))
        return r

    def in_window(self, addr):
        r = self.rng(addr)
        a16 = addr & 0xFFFF
        return r.win_lo <= a16 < r.win_lo + r.size

    def phys(self, addr):
        """file offset of an in-window address; None for RAM; Unmapped for unmapped banks."""
        r = self.rng(addr)
        if r.ram:
            return None
        return ((addr >> 16) - r.first) * r.size + ((addr & 0xFFFF) - r.win_lo)

    def from_offset(self, r, off):
        bank, pos = divmod(off, r.size)
        return ((r.first + bank) << 16) | (r.win_lo + pos)

    def advance(self, addr, n):
        """Address n bytes further, or None when that leaves the declared range (outside the claim)."""
        r = self.rng(addr)
        if r.ram:
            res = addr + n
            if (res >> 16) > r.last or (res >> 16) < r.first:
                return None
            if self.bank.get(res >> 16) is not r:
                return None
            return res
        off = self.phys(addr) + n
        if off < 0 or off >= r.nbanks * r.size:
            return None
        res = self.from_offset(r, off)
        if self.bank.get(res >> 16) is not r:
            return None  # shadowed (e.g. HiROM 7E/7F)
        return res

    def rom_ranges(self):
        seen = []
        for b in sorted(self.bank):
            r = self.bank[b]
            if r not in seen:
                seen.append(r)
        return seen


def lorom():
    return RefBus("lorom").map("1", (0x00, 0x6F), 0x8000, mirror=(0x80, 0xCF)).map("2", (0x7E, 0x7F), 0x10000, ram=True)


def hirom():
    return RefBus("hirom").map("1", (0x40, 0x7F), 0x10000, mirror=(0xC0, 0xFF)).map("2", (0x7E, 0x7F), 0x10000, ram=True)


BUILTIN = {"low_rom": lorom, "high_rom": hirom}


def map_line(ident, banks, size, ram=False, mirror=None, style="hex"):
    """Render one `.map` source line for this declaration. style: how numbers are spelled (hex, dec, bin, HEX, mixed)."""
    def n(v, width=2):
        if style == "dec":
            return str(v)
        if style == "bin":
            return bin(v)
        if style == "HEX":
            return "0x" + f"{v:0{width}X}"
        if style == "mixed":
            return str(v) if v % 2 else f"0x{v:0{width}x}"
        return f"0x{v:0{width}x}"

    lo = 0x8000 if size == 0x8000 else 0
    win = f"{n(lo, 4)}, {n(0xffff, 4)}"
    if style == "ident0":
        # the declarations are numbered from 0 instead of 1
        ident = int(ident) - 1
    s = f".map identifier={ident} bank_range={n(banks[0])}, {n(banks[1])} addr_range={win} mask={n(size, 1)}"
    if mirror:
        s += f" mirror_bank_range={n(mirror[0])}, {n(mirror[1])}"
    if ram:
        s += " writable=1"
    return s
