"""Reference assembler over *abstract programs* (never parses text).

Written from the property statements C02/C03/C05/C07-C10, not from a816's code:
  * lexical scoping: a name resolves in the innermost enclosing scope that defines it, then outward;
    blocks, named scopes, macro applications and loop iterations each open a scope; `.if` branches and
    `.include` do not; a named scope exports its names to the enclosing scope as scope.name;
  * macro application = body in a fresh scope at the call site, parameters bound to the argument value
    *as evaluated at the call site*; code-block arguments are spliced where `{{p}}` appears;
  * `.if` selects at expansion time (undefined name = false); `.for v := a, b` unrolls a..b-1;
  * sequential layout over the bus model; `*=` starts a new block at the mapped offset, `@=` only
    changes the run address; bank ends continue in the next bank with contiguous offsets.

Three verdicts: ok (blocks, labels, symbols predicted), fail (must be rejected), unspec (the
properties do not say - only self-consistency oracles apply).

Statements (tuples):
  ("org", e) ("reloc", e) ("label", n) ("eq", n, e) ("const", n, e) ("data", dir, [e..])
  ("ascii", s) ("text", s) ("ins", mnemonic, suffix, shape, e) ("bra", mnemonic, e)
  ("block", body) ("scope", name, body) ("macro", name, params, body) ("call", name, args)
  ("splice", param) ("if", e, then, else|None) ("for", var, lo, hi, body) ("incbin", fname)
  ("table", fname) ("include", fname, body) ("incips", fname, e) ("raw", text) ("comment", text)
Expressions: mc/ref/expr.py trees with ('s', name) leaves.
"""
from __future__ import annotations

from . import bus as refbus
from . import expr as rx
from . import ips as refips
from . import isa
from . import tbl as reftbl

DATA_W = {"db": 1, "dw": 2, "dl": 3, "pointer": 3}
SUF_W = {"b": 1, "w": 2, "l": 3}


class Fail(Exception):
    pass


class Unspec(Exception):
    pass


class Undefined(Exception):
    pass


class Deferred:
    __slots__ = ("expr", "scope", "eq_index")

    def __init__(self, expr, scope, eq_index=None):
        self.expr = expr
        self.scope = scope
        self.eq_index = eq_index


class Alias:
    __slots__ = ("scope", "name")

    def __init__(self, scope, name):
        self.scope = scope
        self.name = name


class RScope:
    def __init__(self, sid, parent, kind, name=None):
        self.sid = sid
        self.parent = parent
        self.kind = kind
        self.name = name
        self.defs = {}
        self.ct = {}
        self.code = {}
        self.labels = []
        self.table = None
        self.redef = set()  # := constants assigned more than once in this scope
        self.predecl = set()  # labels that a statement list of this scope defines (known from the start of that list)
        self.predecl_eq = set()  # `=` symbols that a statement list of this scope defines

    def chain(self):
        s = self
        while s is not None:
            yield s
            s = s.parent


class Verdict:
    def __init__(self, status, reason=""):
        self.status = status
        self.reason = reason
        self.blocks = []
        self.extra_calls = []  # writer calls made for .include_ips records, in order
        self.labels = []
        self.symbols = {}
        self.stats = {}

    def __repr__(self):
        return f"Verdict({self.status}, {self.reason})"


class RefAsm:
    def __init__(self, bus=None, files=None, max_iter=64):
        self.bus = bus or refbus.lorom()
        self.files = files or {}
        self.max_iter = max_iter
        self.scopes = []
        self.root = self.new_scope(None, "root")
        self.macros = {}
        self.run = None
        self.off = None
        self.blocks = []
        self.fixups = []
        self.assumptions = []
        self.undef_checks = []
        self.eq_count = 0
        self.eq_limit = None
        self.depth = 0
        self.extra_calls = []
        self.reloc_rom_active = False
        self.stats = {"cross_scope_refs": 0, "scopes": 0, "inferred": 0, "moves": 0, "emits": 0}

    # ---- scopes / lookup -------------------------------------------------------------
    def new_scope(self, parent, kind, name=None):
        s = RScope(len(self.scopes), parent, kind, name)
        self.scopes.append(s)
        return s

    def lookup(self, name, scope, depth=0):
        if depth > 50:
            raise Unspec("circular definition")
        for s in scope.chain():
            if name in s.defs:
                if name in s.redef:
                    # sequential meaning is defined for expansion-time uses only (conditions, loop bounds, eager macro
                    # arguments, other := definitions); what an emission-time read of such a name sees is not specified
                    raise Unspec(f"constant {name} assigned more than once is read at emission time")
                if s is not scope:
                    self.stats["cross_scope_refs"] += 1
                return self.resolve(s.defs[name], depth)
        raise Undefined(name)

    def resolve(self, v, depth=0):
        if isinstance(v, int):
            return v
        if isinstance(v, Alias):
            return self.resolve(v.scope.defs[v.name], depth + 1)
        if isinstance(v, Deferred):
            if v.eq_index is not None and self.eq_limit is not None and v.eq_index >= self.eq_limit:
                raise Unspec("`=` symbol used before its definition is evaluated")
            saved = self.eq_limit
            if v.eq_index is not None:
                self.eq_limit = v.eq_index
            try:
                return rx.evaluate(v.expr, lambda n: self.lookup(n, v.scope, depth + 1))
            finally:
                self.eq_limit = saved
        raise Unspec(f"cannot resolve {v!r}")

    def final_eval(self, e, scope):
        try:
            return rx.evaluate(e, lambda n: self.lookup(n, scope))
        except Undefined as u:
            raise Fail(f"undefined symbol {u}") from u
        except rx.Undefined as u:
            raise Unspec(str(u)) from u

    def ct_lookup(self, name, scope):
        for s in scope.chain():
            if name in s.ct:
                return s.ct[name]
            if name in s.predecl:
                raise Undefined(name)
            if name in s.defs or name in s.code:
                # the innermost definition of the name is not an expansion-time value (label, `=`, deferred
                # parameter, loop variable): an outer constant of the same spelling must NOT shine through
                raise Undefined(name)
        raise Undefined(name)

    def ct_eval(self, e, scope):
        """Value at expansion time (literals, := constants, compile-time parameters); Undefined otherwise."""
        try:
            return rx.evaluate(e, lambda n: self.ct_lookup(n, scope))
        except rx.Undefined as u:
            raise Unspec(str(u)) from u

    def now_eval(self, e, scope):
        """Value from what is known at this point of the layout: compile-time values and labels already placed."""
        def lk(n):
            for s in scope.chain():
                if n in s.redef:
                    raise Unspec(f"constant {n} assigned more than once is read by the layout")
                if n in s.ct:
                    return s.ct[n]
                v = s.defs.get(n)
                if isinstance(v, int):
                    return v
                if v is not None or n in s.predecl_eq:
                    # the scope defines the name by `=` (now or further down): its value is not known to the layout, and an
                    # outer definition of the same spelling must not be used to guess a width
                    raise Undefined(n)
            raise Undefined(n)
        try:
            return rx.evaluate(e, lk)
        except rx.Undefined as u:
            raise Unspec(str(u)) from u

    def define(self, scope, name, value, ct=False, label=False):
        if name in scope.defs or name in scope.code:
            raise Unspec(f"name {name} defined twice in one scope")
        scope.defs[name] = value
        if ct:
            scope.ct[name] = value
        if label:
            scope.labels.append(name)

    # ---- output ----------------------------------------------------------------------
    def need_pos(self):
        if self.run is None:
            raise Unspec("emission before the first *=")

    def emit(self, data):
        self.need_pos()
        n = len(data)
        if n == 0:
            return
        blk = self.blocks[-1]
        blk[1] += data
        self.stats["emits"] += 1
        nxt = self.bus.advance(self.run, n)
        if nxt is None:
            # leaving the declared range: only a problem if something else follows
            self.run = ("off-range", self.run, n)
        else:
            self.run = nxt
        if self.off is not None:
            self.off += n

    def cur_run(self):
        self.need_pos()
        if isinstance(self.run, tuple):
            raise Unspec("advance left the mapped range")
        return self.run

    def placeholder(self, width, e, scope, kind, extra=None):
        run = self.cur_run()
        blk_i = len(self.blocks) - 1
        pos = len(self.blocks[-1][1])
        self.fixups.append((blk_i, pos, width, e, scope, kind, run, extra))
        self.emit(bytes(width))

    # ---- statements ------------------------------------------------------------------
    def run_body(self, body, scope):
        # a label belongs to its scope as a whole: from the first statement of the list on, the name means that label (forward
        # references are normal), so an outer constant of the same spelling is hidden from expansion-time lookups as well
        if scope is not self.root:
            for st in body:
                if st[0] == "label":
                    scope.predecl.add(st[1])
                elif st[0] == "eq":
                    scope.predecl_eq.add(st[1])
        for st in body:
            self.stmt(st, scope)

    def stmt(self, st, scope):
        k = st[0]
        if k in ("comment", "map"):
            return  # the bus model handed to RefAsm already reflects the .map declarations
        if k == "org":
            t = self.pos_value(st[1], scope)
            try:
                r = self.bus.rng(t)
            except refbus.Unmapped as u:
                raise Fail("*= to an unmapped bank") from u
            self.stats["moves"] += 1
            if r.ram:
                # a RAM address has no ROM offset to move to: the output stays where it is (a new block starts at the
                # current storage offset).  Only after an `@=` to a ROM address is the position unspecified (the
                # implementation tracks a single offset for storage and for branch arithmetic there).
                self.run = t
                if self.off is None or self.reloc_rom_active:
                    self.off = None
                self.blocks.append([self.off, bytearray()])
                self.stats["ram_org"] = self.stats.get("ram_org", 0) + 1
                return
            if not self.bus.in_window(t):
                raise Unspec("*= below the bank window")
            self.run = t
            self.off = self.bus.phys(t)
            self.reloc_rom_active = False
            self.blocks.append([self.off, bytearray()])
        elif k == "reloc":
            t = self.pos_value(st[1], scope)
            try:
                r = self.bus.rng(t)
            except refbus.Unmapped as u:
                raise Fail("@= to an unmapped bank") from u
            if not r.ram and not self.bus.in_window(t):
                raise Unspec("@= below the bank window")
            self.need_pos()
            self.stats["moves"] += 1
            self.run = t
            if not r.ram:
                self.reloc_rom_active = True
        elif k == "label":
            self.define(scope, st[1], self.cur_run() if self.run is not None else self._no_pos_label(), label=True)
        elif k == "eq":
            self.define(scope, st[1], Deferred(st[2], scope, self.eq_count))
            self.eq_count += 1
        elif k == "const":
            try:
                v = self.ct_eval(st[2], scope)
            except Undefined as u:
                raise Unspec(f":= over a name unknown at expansion time ({u})") from u
            if st[1] in scope.ct and st[1] in scope.defs and isinstance(scope.defs[st[1]], int):
                # assigned again: later EXPANSION-TIME uses see the new value (sequential); emission-time reads are unspecified
                scope.redef.add(st[1])
                scope.defs[st[1]] = v
                scope.ct[st[1]] = v
                return
            if st[1] in scope.defs:
                raise Unspec("constant redefined")
            self.define(scope, st[1], v, ct=True)
        elif k == "data":
            w = DATA_W[st[1]]
            for e in st[2]:
                self.placeholder(w, e, scope, "data")
        elif k == "ascii":
            self.emit(st[1].encode("ascii"))
        elif k == "text":
            table = None
            for s in scope.chain():
                if s.table is not None:
                    table = s.table
                    break
            if table is None:
                raise Fail(".text without a table")
            self.emit(reftbl.encode(table, st[1])[0])
        elif k == "table":
            scope.table = self.parse_table(self.files[st[1]])
        elif k == "ins":
            self.ins(st, scope)
        elif k == "bra":
            if st[1] not in isa.BRANCHES:
                raise Fail("not a branch")
            self.placeholder(2, st[2], scope, "bra", isa.BY_MNEMONIC[st[1]]["rel"])
        elif k == "block":
            s = self.new_scope(scope, "block")
            self.run_body(st[1], s)
        elif k == "scope":
            s = self.new_scope(scope, "named", st[1])
            self.run_body(st[2], s)
            for name in list(s.defs):
                if "." in name:
                    continue
                q = f"{st[1]}.{name}"
                if q in scope.defs:
                    raise Unspec("qualified name defined twice")
                scope.defs[q] = Alias(s, name)
                if name in s.ct:
                    scope.ct[q] = s.ct[name]
        elif k == "macro":
            self.macros[st[1]] = (st[2], st[3])
        elif k == "call":
            self.call(st, scope)
        elif k == "splice":
            body = None
            for s in scope.chain():
                if st[1] in s.code:
                    body = s.code[st[1]]
                    break
                if st[1] in s.defs:
                    raise Fail("splice of a non-code symbol")
            if body is None:
                raise Fail("splice of an undefined name")
            self.run_body(body, scope)
        elif k == "if":
            names = rx.names(st[1])
            try:
                cond = self.ct_eval(st[1], scope)
            except Undefined:
                cond = 0
                self.undef_checks.append((names, scope))
            if cond != 0:
                self.run_body(st[2], scope)
            elif st[3] is not None:
                self.run_body(st[3], scope)
        elif k == "for":
            try:
                lo = self.ct_eval(st[2], scope)
                hi = self.ct_eval(st[3], scope)
            except Undefined as u:
                raise Unspec(f"loop bound unknown at expansion time ({u})") from u
            if hi - lo > self.max_iter:
                raise Unspec("too many iterations for the reference")
            for v in range(lo, hi):
                s = self.new_scope(scope, "for")
                # the loop variable is bound by the symbol pass: not an expansion-time value, not known to the label pass
                self.define(s, st[1], Deferred(rx.num(v) if v >= 0 else ("u", "-", rx.num(-v)), s))
                self.run_body(st[4], s)
        elif k == "incbin":
            content = self.files[st[1]]
            base = st[1].replace("/", "_").replace(".", "_")
            self.define(scope, base, self.cur_run(), label=True)
            self.define(scope, base + "__size", len(content))
            self.emit(content)
        elif k == "include":
            self.run_body(st[2], scope)
        elif k == "incips":
            try:
                delta = self.ct_eval(st[2], scope)
            except Undefined as u:
                raise Unspec(f"delta unknown at expansion time ({u})") from u
            try:
                recs = refips.parse(self.files[st[1]])
            except refips.IpsError as e:
                raise Fail(f"malformed IPS file: {e}") from e
            self.extra_calls += [(o + delta, p) for o, p, _ in recs]
        elif k == "raw":
            raise Unspec("raw text")
        else:
            raise ValueError(f"unknown statement {st!r}")

    def _no_pos_label(self):
        raise Unspec("label before the first *=")

    def pos_value(self, e, scope):
        try:
            v = self.now_eval(e, scope)
        except Undefined as u:
            raise Unspec(f"position depends on a value not known yet ({u})") from u
        self.assumptions.append((e, scope, v, "value"))
        return v

    def parse_table(self, text):
        entries = {}
        for line in text.splitlines():
            if "=" in line:
                code, t = line.split("=", 1)
                entries[t] = bytes.fromhex(code.strip())
        return entries

    def ins(self, st, scope):
        _, mn, suffix, shape, e = st
        if shape is None:
            op = isa.lookup(mn, None, None)
            if op is None or suffix:
                raise Fail("no implied form")
            self.emit(bytes([op]))
            return
        if suffix:
            width = SUF_W[suffix]
        else:
            try:
                v = self.now_eval(e, scope)
            except Undefined as u:
                raise Unspec(f"operand width inferred from a value not known yet ({u})") from u
            self.assumptions.append((e, scope, v, "width"))
            self.stats["inferred"] += 1
            width = isa.natural_width(v)
            if width is None:
                raise Unspec("operand value fits no width")
        op = isa.lookup(mn, shape, width)
        if op is None:
            raise Fail(f"{mn} {shape} width {width} is not a 65c816 instruction")
        self.emit(bytes([op]))
        self.placeholder(width, e, scope, "ins")

    def call(self, st, scope):
        _, name, args = st
        if name not in self.macros:
            raise Fail("undefined macro")
        params, body = self.macros[name]
        if len(args) < len(params):
            raise Fail("too few macro arguments")
        if len(args) > len(params):
            raise Unspec("surplus macro arguments")
        self.depth += 1
        if self.depth > 40:
            raise Unspec("macro recursion too deep for the reference")
        s = self.new_scope(scope, "macro")
        for p, a in zip(params, args):
            if isinstance(a, tuple) and a and a[0] == "code":
                if p in s.defs or p in s.code:
                    raise Unspec("parameter named twice")
                s.code[p] = a[1]
                continue
            try:
                v = self.ct_eval(a, scope)  # argument evaluated at the CALL SITE
                self.define(s, p, v, ct=True)
            except Undefined:
                self.define(s, p, Deferred(a, scope))
        self.run_body(body, s)
        self.depth -= 1

    # ---- driver ----------------------------------------------------------------------
    def assemble(self, program):
        try:
            self.run_body(program, self.root)
            return self.finish()
        except Fail as f:
            return Verdict("fail", str(f))
        except Unspec as u:
            return Verdict("unspec", str(u))

    def finish(self):
        # 1. `=` symbols must be evaluable in program order
        eqs = []
        for s in self.scopes:
            for name, v in s.defs.items():
                if isinstance(v, Deferred) and v.eq_index is not None:
                    eqs.append((v.eq_index, s, name, v))
        for idx, s, name, v in sorted(eqs, key=lambda t: t[0]):
            self.eq_limit = idx
            try:
                rx.evaluate(v.expr, lambda n: self.lookup(n, v.scope))
            except Undefined as u:
                raise Fail(f"`=` over an undefined symbol {u}") from u
            except rx.Undefined as u:
                raise Unspec(str(u)) from u
        self.eq_limit = None
        # 2. assumptions made during layout must hold in the final environment
        for e, scope, v, what in self.assumptions:
            # a width/position may only be inferred from constants and labels: if a name's innermost definition turns out to be
            # a symbol-pass value (`=`, deferred parameter, loop variable) the label pass could not have known it
            for n in rx.names(e):
                for sc in scope.chain():
                    if n in sc.defs:
                        if isinstance(sc.defs[n], Deferred):
                            raise Unspec("a value used for sizing/positioning is only defined by the symbol pass")
                        break
            try:
                fv = self.final_eval(e, scope)
                if (fv != v) if what == "value" else (isa.natural_width(fv) != isa.natural_width(v)):
                    raise Unspec("a value used for sizing/positioning changes once all names are known")
            except Fail as f:
                raise Unspec(str(f)) from f
        for names, scope in self.undef_checks:
            for n in names:
                try:
                    self.lookup(n, scope)
                except Undefined:
                    continue
                raise Unspec("condition over a name that is only known after expansion")
        # 3. fixups
        for blk_i, pos, width, e, scope, kind, run, extra in self.fixups:
            v = self.final_eval(e, scope)
            blk = self.blocks[blk_i][1]
            if kind == "bra":
                try:
                    r_src = self.bus.rng(run)
                    r_dst = self.bus.rng(v)
                except refbus.Unmapped as u:
                    raise Fail("branch to/from unmapped space") from u
                if r_src.ram or r_dst.ram:
                    raise Fail("branch with run address or target in RAM space")
                if (run >> 16) != (v >> 16) or r_src is not r_dst:
                    raise Unspec("cross-bank branch")
                d = v - (run + 2)
                if not -128 <= d <= 127:
                    raise Fail("branch out of range")
                blk[pos:pos + 2] = bytes([extra, d & 0xFF])
            else:
                if kind == "ins" and width == 3 and not 0 <= v <= 0xFFFFFF:
                    raise Unspec("long operand does not fit 24 bits")
                blk[pos:pos + width] = (v % (256 ** width)).to_bytes(width, "little")
        out = Verdict("ok")
        out.blocks = [(o, bytes(b)) for o, b in self.blocks if len(b)]
        out.extra_calls = list(self.extra_calls)
        for s in self.scopes:
            if s.kind != "for":
                out.labels += [(n, self.resolve(s.defs[n])) for n in s.labels]
        syms = {}
        for n, v in self.root.defs.items():
            try:
                syms[n] = self.resolve(v)
            except (Undefined, Unspec, Fail):
                pass
        out.symbols = syms
        self.stats["scopes"] = len(self.scopes)
        out.stats = dict(self.stats)
        return out


def reference(program, busname="low_rom", files=None, bus=None):
    b = bus if bus is not None else refbus.BUILTIN[busname]()
    return RefAsm(b, files).assemble(program)
