"""Strict IPS reader / patch semantics (written from the IPS format definition).

PATCH, then records: 3-byte big-endian offset, 2-byte big-endian length, `length` data bytes;
length 0 = run-length record: 2-byte count, 1-byte value.  A 3-byte field equal to b"EOF"
where an offset is expected ends the patch.
"""
from __future__ import annotations

EOF_OFFSET = 0x454F46


class IpsError(Exception):
    pass


def parse(data: bytes, allow_trailing: bool = False):
    """Return [(offset, payload bytes, 'plain'|'rle')]. Raises IpsError for anything malformed."""
    if data[:5] != b"PATCH":
        raise IpsError("missing PATCH header")
    p = 5
    recs = []
    while True:
        if p + 3 > len(data):
            raise IpsError("truncated: no EOF marker")
        if data[p:p + 3] == b"EOF":
            p += 3
            break
        off = int.from_bytes(data[p:p + 3], "big")
        if p + 5 > len(data):
            raise IpsError("truncated record header")
        ln = int.from_bytes(data[p + 3:p + 5], "big")
        p += 5
        if ln == 0:
            if p + 3 > len(data):
                raise IpsError("truncated RLE record")
            cnt = int.from_bytes(data[p:p + 2], "big")
            if cnt == 0:
                raise IpsError("RLE record with zero count")
            recs.append((off, bytes([data[p + 2]]) * cnt, "rle"))
            p += 3
        else:
            if p + ln > len(data):
                raise IpsError("truncated record data")
            recs.append((off, data[p:p + ln], "plain"))
            p += ln
    if p != len(data) and not allow_trailing:
        raise IpsError(f"{len(data) - p} bytes after the EOF marker")
    return recs


def build(records, eof=True) -> bytes:
    """records: [(offset, payload, 'plain') | (offset, (count, value), 'rle')]"""
    out = bytearray(b"PATCH")
    for off, payload, kind in records:
        out += off.to_bytes(3, "big")
        if kind == "rle":
            cnt, val = payload
            out += b"\x00\x00" + cnt.to_bytes(2, "big") + bytes([val])
        else:
            out += len(payload).to_bytes(2, "big") + payload
    if eof:
        out += b"EOF"
    return bytes(out)


def same_image(writes_a, writes_b):
    """Do two write sequences [(addr, bytes)] (applied in order, later wins) produce the same sparse image?
    Returns None if equal, else a description of the first difference."""
    cuts = set()
    for ws in (writes_a, writes_b):
        for a, d in ws:
            if d:
                cuts.add(a)
                cuts.add(a + len(d))
    cuts = sorted(cuts)

    def last_cover(ws, lo, hi):
        for a, d in reversed(ws):
            if d and a <= lo and hi <= a + len(d):
                return d[lo - a:hi - a]
        return None

    for lo, hi in zip(cuts, cuts[1:]):
        x = last_cover(writes_a, lo, hi)
        y = last_cover(writes_b, lo, hi)
        if x != y:
            if x is None or y is None:
                return f"range [{lo:#x},{hi:#x}) written by only one side"
            i = next(i for i in range(hi - lo) if x[i] != y[i])
            return f"byte at {lo + i:#x}: {x[i]:#04x} vs {y[i]:#04x}"
    return None
