"""65c816 ISA reference: operand syntax + width -> addressing mode -> opcode byte.

Independent of a816's table.  A *shape* is (bracket, inner, outer) with bracket in
'', '#', '(', '[' and inner/outer index in '', 'x', 'y', 's'; plus the shape None = no operand.
"""
from __future__ import annotations

from .isa_matrix import MATRIX

# mnemonic -> {mode: opcode}
BY_MNEMONIC: dict[str, dict[str, int]] = {}
for _op, (_mn, _mode) in MATRIX.items():
    BY_MNEMONIC.setdefault(_mn, {})[_mode] = _op
# a816 spells the long jumps with the short mnemonic (documented aliases)
BY_MNEMONIC["jsr"]["long"] = 0x22
BY_MNEMONIC["jmp"]["long"] = 0x5C
BY_MNEMONIC["jmp"]["[abs]"] = 0xDC

MNEMONICS = sorted(BY_MNEMONIC)
BRANCHES = sorted(m for m, d in BY_MNEMONIC.items() if "rel" in d)

# (bracket, inner, outer) -> {width: [candidate modes]}
SHAPE_MODES = {
    ("", "", ""): {1: ["dp"], 2: ["abs"], 3: ["long"]},
    ("", "", "x"): {1: ["dp,x"], 2: ["abs,x"], 3: ["long,x"]},
    ("", "", "y"): {1: ["dp,y"], 2: ["abs,y"]},
    ("", "", "s"): {1: ["sr,s"]},
    ("#", "", ""): {1: ["#m", "#x", "#8"], 2: ["#m", "#x"]},
    ("(", "", ""): {1: ["(dp)"], 2: ["(abs)"]},
    ("(", "", "y"): {1: ["(dp),y"]},
    ("(", "x", ""): {1: ["(dp,x)"], 2: ["(abs,x)"]},
    ("(", "s", "y"): {1: ["(sr,s),y"]},
    ("[", "", ""): {1: ["[dp]"], 2: ["[abs]"]},
    ("[", "", "y"): {1: ["[dp],y"]},
}

ALL_SHAPES = [None]
for _br in ("", "#"):
    for _o in ("", "x", "y", "s"):
        ALL_SHAPES.append((_br, "", _o))
for _br in ("(", "["):
    for _i in ("", "x", "y", "s"):
        for _o in ("", "x", "y", "s"):
            ALL_SHAPES.append((_br, _i, _o))


def lookup(mnemonic: str, shape, width: int | None):
    """Opcode byte the ISA defines for this mnemonic/shape/operand width, or None."""
    modes = BY_MNEMONIC.get(mnemonic)
    if modes is None:
        return None
    if shape is None:
        return modes.get("imp")
    cands = SHAPE_MODES.get(shape, {}).get(width, [])
    for m in cands:
        if m in modes:
            return modes[m]
    return None


def natural_width(value: int) -> int | None:
    """Smallest of 1, 2, 3 bytes that holds a non-negative value (None if none does)."""
    if value < 0:
        return None
    if value <= 0xFF:
        return 1
    if value <= 0xFFFF:
        return 2
    if value <= 0xFFFFFF:
        return 3
    return None


def render_operand(shape, text: str, upper_index: bool = False, sp: str = "") -> str:
    br, inner, outer = shape
    if upper_index:
        inner, outer = inner.upper(), outer.upper()
    s = text
    if inner:
        s = f"{s},{sp}{inner}"
    if br == "#":
        s = "#" + s
    elif br == "(":
        s = "(" + s + ")"
    elif br == "[":
        s = "[" + s + "]"
    if outer:
        s = f"{s},{sp}{outer}"
    return s


def encode(opcode: int, value: int, width: int) -> bytes:
    return bytes([opcode]) + (value % (256 ** width)).to_bytes(width, "little")
