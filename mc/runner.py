"""./check <ID> <quick|thorough> | ./check <ID> --replay FILE | ./check all <tier>"""
from __future__ import annotations

import base64
import importlib
import json
import os
import pickle
import sys
import time

from . import pool

ROOT = os.path.dirname(os.path.dirname(os.path.abspath(__file__)))
ALL = ["C%02d" % i for i in range(1, 21)]
# evidence/replays go to /verif unless a scratch copy of the repo is being checked (mutant trials)
OUT = os.environ.get("VERIF_OUT", ROOT)


def load_findings():
    path = os.path.join(ROOT, "known_findings.json")
    if not os.path.exists(path):
        return []
    with open(path) as f:
        return json.load(f)["findings"]


def write_evidence(pid, tier, seed, mod, agg, wall, n_viol, known_hits):
    samples = [d for _, (_, d) in sorted(agg.samples.items(), key=lambda kv: kv[1][0])][:8]
    nt = agg.nt_count + len(agg.nt_keys)
    states = agg.state_count + len(agg.states)
    cov = {
        "evaluations": agg.evals,
        "distinct_nontrivial": nt,
        "rule": mod.RULE,
        "samples": samples,
        "exhaustive": bool(getattr(mod, "EXHAUSTIVE", True)) and agg.timeouts == 0,
        "bound": mod.bound(tier) if hasattr(mod, "bound") else "",
        "cases": agg.cases,
        "distinct_outcomes": len(agg.outcomes),
        "outcome_histogram": dict(sorted(agg.outcomes.items(), key=lambda kv: -kv[1])[:25]),
        "max_depth": agg.max_depth,
        "caps_hit": [],
        "traces_validated_against_impl": agg.traces,
        "states": states if states else agg.cases,
        "transitions": agg.transitions if agg.transitions else agg.evals,
        "violations_by_key": {k: v[0] for k, v in agg.viol.items()},
        "known_findings_observed": known_hits,
    }
    if agg.extra:
        cov["counters"] = dict(agg.extra)
    if hasattr(mod, "EXPLANATION"):
        cov["explanation"] = mod.EXPLANATION
    ev = {
        "property_id": pid,
        "tier": tier,
        "seed": seed,
        "level": mod.LEVEL,
        "coverage": cov,
        "assumptions": list(getattr(mod, "ASSUMPTIONS", [])),
        "wall_s": round(wall, 2),
        "violations": n_viol,
    }
    os.makedirs(os.path.join(OUT, "evidence"), exist_ok=True)
    path = os.path.join(OUT, "evidence", pid + ".json")
    tmp = path + ".tmp"
    with open(tmp, "w") as f:
        json.dump(ev, f, indent=1, default=str)
        f.write("\n")
    os.replace(tmp, path)
    return path


def write_replay(pid, modname, key, idx, case_pickle, msg, desc, n):
    d = os.path.join(OUT, "replays", pid)
    os.makedirs(d, exist_ok=True)
    safe = "".join(c if c.isalnum() or c in "-_." else "_" for c in key)[:60]
    path = os.path.join(d, f"{safe}-{n}.json")
    with open(path, "w") as f:
        json.dump({"property": pid, "module": modname, "key": key, "case_index": idx, "message": msg,
                   "case": desc, "case_pickle_b64": base64.b64encode(case_pickle).decode()}, f, indent=1,
                  default=str)
        f.write("\n")
    return path


def run_check(pid, tier, seed):
    modname = "mc.checks." + pid.lower()
    mod = importlib.import_module(modname)
    t0 = time.monotonic()
    agg = pool.run_parallel(modname, tier, seed)
    findings = [f for f in load_findings() if f["property"] == pid]
    open_keys = {f["key"]: f for f in findings if f["status"] == "open"}
    new_keys = []
    known_hits = {}
    for key in sorted(agg.viol):
        if key in open_keys:
            known_hits[key] = agg.viol[key][0]
        else:
            new_keys.append(key)
    lines = []
    n_viol = 0
    for n_key, key in enumerate(new_keys):
        cnt, lst = agg.viol[key]
        idx, cpk, msg, desc = lst[0]
        # determinism gate: the same case must fail again in a fresh process (first 6 keys; the rest would only cost time)
        stable = True
        if n_key < 6 and not key.startswith("overflow:"):
            again = pool.replay_in_fresh_process(modname, cpk, tier, seed)
            stable = key in {v["key"] for v in again["violations"]}
        path = write_replay(pid, modname, key, idx, cpk, msg, desc, 0)
        n_viol += cnt
        tag = "" if stable else " UNSTABLE(not reproduced on replay: harness nondeterminism)"
        lines.append(f"VIOLATION property={pid} replay={path} key={key} cases={cnt}{tag} :: {msg[:300]}")
    wall = time.monotonic() - t0
    evpath = write_evidence(pid, tier, seed, mod, agg, wall, n_viol, known_hits)
    out = sys.stdout
    for f in findings:
        if f["status"] == "open":
            seen = known_hits.get(f["key"], 0)
            out.write(f"KNOWN-FINDING: property={pid} {f['what']} (key={f['key']}, observed in {seen} cases this run)\n")
    for ln in lines[:12]:
        out.write(ln + "\n")
    if len(lines) > 12:
        out.write(f"... and {len(lines) - 12} more distinct violation keys (all listed in the evidence file)\n")
    nt = agg.nt_count + len(agg.nt_keys)
    out.write(f"{pid} {tier}: cases={agg.cases} evaluations={agg.evals} nontrivial={nt} "
              f"outcomes={len(agg.outcomes)} states={agg.state_count + len(agg.states)} "
              f"transitions={agg.transitions} violations={n_viol} wall={wall:.1f}s evidence={evpath}\n")
    out.flush()
    return 1 if lines else 0


def replay(pid, path):
    with open(path) as f:
        rec = json.load(f)
    cpk = base64.b64decode(rec["case_pickle_b64"])
    r1 = pool.replay_in_fresh_process(rec["module"], cpk)
    r2 = pool.replay_in_fresh_process(rec["module"], cpk)
    k1 = sorted(v["key"] for v in r1["violations"])
    k2 = sorted(v["key"] for v in r2["violations"])
    print(json.dumps(r1["describe"], indent=1, default=str))
    if k1 != k2:
        print("REPLAY-NONDETERMINISTIC", k1, k2)
        return 2
    if not k1:
        print(f"replay: no violation (outcome {r1['outcome']})")
        return 0
    findings = {f["key"] for f in load_findings() if f["property"] == pid and f["status"] == "open"}
    rc = 0
    for v in r1["violations"]:
        if v["key"] in findings:
            print(f"KNOWN-FINDING: property={pid} key={v['key']} :: {v.get('msg', '')[:300]}")
        else:
            print(f"VIOLATION property={pid} replay={path} key={v['key']} :: {v.get('msg', '')[:300]}")
            rc = 1
    return rc


def main(argv):
    if len(argv) < 2:
        print(__doc__)
        return 2
    pid = argv[0]
    seed = int(os.environ.get("VERIF_SEED", "0") or 0)
    if argv[1] == "--replay":
        return replay(pid, argv[2])
    tier = argv[1]
    if tier not in ("quick", "thorough"):
        print(__doc__)
        return 2
    if pid == "all":
        rc = 0
        for p in ALL:
            if os.path.exists(os.path.join(ROOT, "mc", "checks", p.lower() + ".py")):
                rc |= run_check(p, tier, seed)
        return rc
    return run_check(pid, tier, seed)


if __name__ == "__main__":
    sys.exit(main(sys.argv[1:]))
