"""C13 - .include_ips reproduces the patch's effect shifted by delta; malformed patches are rejected."""
from __future__ import annotations

import itertools

from mc import impl
from mc.ref import ips

ID = "C13"
LEVEL = "model_checking"
LEVEL_TEXT = ("Explicit enumeration of all IPS record sequences of length <=3 over 11 record kinds (15 for lengths 1-2: also two runs of the same fill value and records that touch the host program's own bytes; plain 1/3/65535 bytes, run-length "
              "1/4/65535, adjacent to the previous record, offset 0, offset 0xFFFFFE, payload / size+payload spelling 'EOF') x 7 deltas (zero, positive, negative, negative "
              "result, constant expression) x 6 placements of the directive in a host program (incl. the same file included twice, the directive in a macro applied twice with the delta as parameter, and the "
              "same program assembled twice in one process), assembled by the real assembler; the "
              "writer calls are compared with an independent IPS reader's record list. Every byte-prefix of well-formed files and header "
              "variants must be rejected. File-size family: a plain record of every length 1..8400 (thorough 17000), alone and after 4 kinds of leading records, so that record headers and the end marker fall on every file offset relative to the reader's buffering. The only unit test parses the directive; nothing reads a patch.")
LEVEL_NOTE = ("Trusted: mc/ref/ips.py (reader and builder). Host output/labels are compared with the same host assembled without the "
              "directive. A negative offset+delta may either be passed through verbatim or rejected (statement silent).")
TECHNIQUE = "explicit-state enumeration of IPS record sequences x deltas x placements; oracle = independent IPS reader"
RULE = ("state = record sequence of the included file (+delta, placement); transition = appending one record kind. Every sequence up to "
        "depth 3 is built as a real file and included. non-trivial = patch has an RLE, maximum-length or adjacent record, or delta != 0. "
        "Malformed family: one evaluation per byte-prefix / header variant.")
ASSUMPTIONS = ["strict IPS reader mc/ref/ips.py decides well-formedness", "rejected = error return or any exception"]

KINDS = ["p1", "p3", "pmax", "r1", "r4", "rmax", "adj", "off0", "offhi", "peof", "seof",
         # (sequences of length 3 use the 11 kinds above; these four only appear in sequences of length 1 and 2)
         "rs4", "rs16", "hostafter", "hostbefore"]
NCORE = 11
# "dr" is a := symbol that is assigned AGAIN after the directive: the delta is its value at the directive
DELTAS = [("0", 0), ("0x10", 0x10), ("0x200", 0x200), ("0-8", -8), ("NEG", None), ("dd+4", 0x24), ("dr", 0x30)]
PLACES = ["first", "between", "last", "block", "twice", "macro-param"]
HOST_BLOCK = (0x8000, bytes([0x10, 0x11, 0x34, 0x12, 0x02, 0x80, 0x01, 0x01]))


def bound(tier):
    return ("record sequences of length 1..%d over 11 kinds (15 for lengths 1-2)" % (4 if tier == "thorough" else 3) + " (15+225+1331%s)" % ("+14641" if tier == "thorough" else "") + " x 7 deltas x 6 placements (+ repeat); every byte-prefix of 3 well-formed "
            "files + 6 header/EOF variants; one plain record of every length 1..%d alone and after 4 kinds of leading records" % (17000 if tier == "thorough" else 8400))


def cases(tier, seed):
    for n in ((1, 2, 3, 4) if tier == "thorough" else (1, 2, 3)):
        for first in itertools.product(range(len(KINDS) if n <= 2 else NCORE), repeat=n - 1):
            yield ("seq", first)
    yield ("malformed",)
    yield ("many-records", 4000 if tier == "thorough" else 1500)
    # file-size family: one plain record of EVERY length in a range (after an optional leading record), so that the end
    # marker and every record header fall on every offset relative to the reader's buffering
    top = 17000 if tier == "thorough" else 8400
    for lead in LEADS:
        hi = top if (lead == "none" or tier == "thorough") else 4200
        for lo in range(1, hi, 350):
            yield ("size", lead, lo, min(lo + 350, hi))


def describe(case, res):
    d = {"case": list(case), "outcome": res.get("outcome")}
    if res.get("example"):
        d["example"] = res["example"]
    return d


def make_records(kind_idx):
    """Concrete record list for a sequence of kinds; returns build-format records."""
    recs = []
    prev_end = 0x0500
    for pos, ki in enumerate(kind_idx):
        k = KINDS[ki]
        base = 0x1000 * (pos + 1) + 0x40000 * ki
        salt = pos * 37 + ki
        if k == "p1":
            r = (base, bytes([(0xA0 + salt) & 0xFF]), "plain")
        elif k == "p3":
            r = (base, bytes([(1 + salt) & 0xFF, (2 + salt) & 0xFF, (3 + salt) & 0xFF]), "plain")
        elif k == "pmax":
            r = (base, bytes(((i * 13 + salt) ^ (i >> 8)) & 0xFF for i in range(0xFFFF)), "plain")
        elif k == "r1":
            r = (base, (1, (0x51 + salt) & 0xFF), "rle")
        elif k == "r4":
            r = (base, (4, (0x52 + salt) & 0xFF), "rle")
        elif k == "rmax":
            r = (base, (0xFFFF, (0x53 + salt) & 0xFF), "rle")
        elif k == "peof":
            r = (base, b"THEOFFSET" + bytes([salt & 0xFF]), "plain")         # payload contains the bytes 'EOF'
        elif k == "seof":
            r = (base, b"F" + bytes((i * 5 + salt) & 0xFF for i in range(0x454F - 1)), "plain")  # size 0x454F then 'F': header+payload spell EOF
        elif k == "rs4":
            r = (base, (4, 0x5A), "rle")          # two runs of the SAME fill value, the later one longer
        elif k == "rs16":
            r = (base + 0x800, (16, 0x5A), "rle")
        elif k == "hostafter":
            r = (0x8008, bytes([(0xC0 + salt) & 0xFF, 0xC1]), "plain")   # right after the host program's own bytes (file offsets 0x8000-0x8007)
        elif k == "hostbefore":
            r = (0x7FFE, bytes([(0xC8 + salt) & 0xFF, 0xC9]), "plain")   # ends on the byte just before them
        elif k == "adj":
            r = (prev_end if prev_end <= 0xFFFFF0 else base, bytes([(0x77 + salt) & 0xFF, 0x78]), "plain")
        elif k == "off0":
            r = (0, bytes([(0xE0 + salt) & 0xFF, 0xE1]), "plain")
        else:
            r = (0xFFFFFE, bytes([(0xF0 + salt) & 0xFF, 0xF1]), "plain")
        recs.append(r)
        ln = r[1][0] if r[2] == "rle" else len(r[1])
        prev_end = r[0] + ln
    return recs


def host(place, directive):
    body1 = "h0:\n.db 0x10, 0x11\n"
    body2 = "h1:\n.dw 0x1234\n.dl h1\nh2:\n.db 1\n"
    if place == "first":
        return directive + "*=0x018000\n" + body1 + body2
    if place == "between":
        return "*=0x018000\n" + body1 + directive + body2
    if place == "last":
        return "*=0x018000\n" + body1 + body2 + directive
    return "*=0x018000\n" + body1 + "{\n" + directive + "}\n" + body2


HOST_LABELS = {"h0": 0x018000, "h1": 0x018002, "h2": 0x018007}


def run_seq(prefix):
    viol = []
    evals = nt = states = 0
    outcomes = set()
    example = None
    for last in range(len(KINDS) if len(prefix) <= 1 else NCORE):
        kinds = tuple(prefix) + (last,)
        recs = make_records(kinds)
        data = ips.build(recs)
        parsed = ips.parse(data)
        states += 1
        special = any(KINDS[k] in ("pmax", "r1", "r4", "rmax", "adj") for k in kinds)
        for dtext, dval in DELTAS:
            if dval is None:
                dval = -(min(o for o, _, _ in parsed) + 8)
                dtext = f"0-{-dval}"
            for place in PLACES:
                directive = f".include_ips 'p.ips', {dtext}\n"
                expected = [(o + dval, p) for o, p, _ in parsed]
                if place == "macro-param":
                    # one directive in a macro body, delta = the macro's parameter, applied twice with different deltas
                    src = ("dd := 0x20\ndr := 0x30\n.macro incm(dv) {\n.include_ips 'p.ips', dv\n}\n" + host("between", f"incm({dtext})\n") +
                           f"incm({dtext}+0x2000)\ndr := 0x50\n")
                    expected = expected + [(o + dval + 0x2000, p) for o, p, _ in parsed]
                elif place == "twice":
                    # the same file included twice in one program, with different deltas
                    src = "dd := 0x20\ndr := 0x30\n" + host("between", directive) + f".include_ips 'p.ips', {dtext}+0x1000\n" + "dr := 0x50\n"
                    expected = expected + [(o + dval + 0x1000, p) for o, p, _ in parsed]
                else:
                    src = "dd := 0x20\ndr := 0x30\n" + host(place, directive) + "dr := 0x50\n"
                out = impl.assemble(src, rom="low_rom", files={"p.ips": data})
                evals += 1
                if special or dval != 0:
                    nt += 1
                if place == "between" and out.accepted:
                    # the same program again in the same process, file untouched: identical writer calls
                    again = impl.assemble(src, rom="low_rom")
                    evals += 1
                    if again.blocks != out.blocks or again.status != out.status:
                        viol.append({"key": "include_ips:not-repeatable", "msg": f"kinds={[KINDS[k] for k in kinds]} delta={dtext}: second assembly of the same program in the same process differs"})
                        outcomes.add("NOT-REPEATABLE")
                        continue
                neg = any(a < 0 for a, _ in expected)
                desc = f"kinds={[KINDS[k] for k in kinds]} delta={dtext} place={place}"
                if not out.accepted:
                    if neg:
                        outcomes.add("negative-rejected")
                        continue
                    viol.append({"key": "include_ips:wellformed-rejected:" + ("rle" if any(k == "rle" for _, _, k in parsed) else "plain"),
                                 "msg": f"{desc}: {out.brief()}"})
                    outcomes.add("REJECTED")
                    continue
                got = [b for b in out.blocks if b != HOST_BLOCK]
                nhost = len(out.blocks) - len(got)
                if nhost != 1:
                    viol.append({"key": "include_ips:host-output-changed", "msg": f"{desc}: host block missing or altered: {out.brief()[:200]}"})
                    outcomes.add("HOST-CHANGED")
                    continue
                if got != expected:
                    why = "count" if len(got) != len(expected) else next(
                        (f"record {i}: addr {g[0]:#x} vs {e[0]:#x}, len {len(g[1])} vs {len(e[1])}" for i, (g, e) in enumerate(zip(got, expected)) if g != e), "?")
                    kindtag = "rle" if any(k == "rle" for _, _, k in parsed) else "plain"
                    viol.append({"key": f"include_ips:wrong-records:{kindtag}", "msg": f"{desc}: writer calls differ from the patch records ({why})"})
                    outcomes.add("WRONG-RECORDS")
                    continue
                if dict(out.labels) != HOST_LABELS:
                    viol.append({"key": "include_ips:host-labels-changed", "msg": f"{desc}: labels {out.labels}"})
                    outcomes.add("LABELS-CHANGED")
                    continue
                outcomes.add("ok")
                if example is None and special and dval:
                    example = {"records": [(hex(o), len(p), k) for o, p, k in parsed], "delta": dtext, "place": place,
                               "writer_calls": [(hex(a), len(b)) for a, b in out.blocks]}
        if len(viol) > 20:
            break
    return {"evals": evals, "nt_count": nt, "state_count": states, "transitions": states, "outcome": sorted(outcomes),
            "violations": viol[:20], "example": example, "depth": len(prefix) + 1}


def run_malformed():
    viol = []
    evals = 0
    outcomes = set()
    files = [
        ips.build([(0x1000, b"\x01\x02\x03\x04\x05", "plain"), (0x2000, (6, 0x33), "rle"), (0x3000, b"\xAA", "plain")]),
        ips.build([(0x10, (300, 0x44), "rle"), (0x5000, bytes(range(40)), "plain")]),
        ips.build([(0xFFFFFE, b"\x01\x02", "plain")]),
    ]
    variants = []
    for fi, f in enumerate(files):
        for cut in range(len(f)):
            variants.append((f"file{fi}[:{cut}]", f[:cut]))
    good = files[0]
    variants += [("lowercase-header", b"patch" + good[5:]), ("no-header", good[5:]), ("PATCH-misspelt", b"PATCX" + good[5:]),
                 ("missing-EOF", good[:-3]), ("empty-file", b""), ("only-header", b"PATCH")]
    # the size field of the LAST record claims more bytes than are left before the end marker (marker intact)
    for fi, f in enumerate(files):
        recs = ips.parse(f)
        if recs and recs[-1][2] == "plain":
            body_len = len(recs[-1][1])
            pos = len(f) - 3 - body_len - 2   # offset of the size field of the last (plain) record
            for extra in (1, 2, 3, 7, 300):
                sz = body_len + extra
                variants.append((f"file{fi}-last-size+{extra}", f[:pos] + sz.to_bytes(2, "big") + f[pos + 2:]))
    src = "*=0x018000\n.db 1\n.include_ips 'm.ips', 0\n.db 2\n"
    for name, data in variants:
        try:
            ips.parse(data)
            continue  # happens to be well formed: no claim
        except ips.IpsError as e:
            why = str(e)
        out = impl.assemble(src, rom="low_rom", files={"m.ips": data})
        evals += 1
        if out.accepted:
            viol.append({"key": "include_ips:malformed-accepted", "msg": f"{name} ({why}) was accepted: {out.brief()[:200]}"})
            outcomes.add("MALFORMED-ACCEPTED")
        elif out.status == "timeout":
            viol.append({"key": "include_ips:malformed-hangs", "msg": f"{name} ({why}) did not terminate"})
        else:
            outcomes.add("malformed-rejected")
    # the header variants once more in an interpreter that strips assertions (python -O): still rejected
    import subprocess
    import sys as _sys
    for name, data in variants[-6:]:
        try:
            ips.parse(data)
            continue
        except ips.IpsError:
            pass
        impl.write_files({"m.ips": data, "m_o.s": src})
        code = ("import sys\nsys.path.insert(0, %r)\nfrom a816.program import Program\nclass W:\n    def begin(self): pass\n    def end(self): pass\n"
                "    def write_block_header(self, b, a): pass\n    def write_block(self, b, a): pass\n"
                "try:\n    r = Program().assemble_string_with_emitter(open('m_o.s').read(), 'm_o.s', W())\nexcept BaseException as e:\n    r = 'raised'\n"
                "sys.__stdout__.write('RESULT ' + ('accepted' if r is None else 'rejected') + '\\n')\n" % impl.REPO)
        pr = subprocess.run([_sys.executable, "-O", "-c", code], capture_output=True, text=True, timeout=60)
        evals += 1
        if "RESULT accepted" in pr.stdout:
            viol.append({"key": "include_ips:malformed-accepted", "msg": f"{name} was accepted by an interpreter run with -O (assertions stripped)"})
        elif "RESULT rejected" not in pr.stdout:
            viol.append({"key": "include_ips:harness", "msg": f"-O run produced no result: {(pr.stdout + pr.stderr)[-200:]}"})
    # and the well-formed originals are accepted
    for f in files:
        out = impl.assemble(src, rom="low_rom", files={"m.ips": f})
        evals += 1
        if not out.accepted:
            viol.append({"key": "include_ips:wellformed-rejected:control", "msg": out.brief()})
    return {"evals": evals, "nt_count": evals, "state_count": len(variants), "transitions": len(variants), "outcome": sorted(outcomes),
            "violations": viol[:20]}


def run_many(count):
    """A patch with very many small records: size only, nothing else special."""
    viol = []
    evals = 0
    for n in (200, 999, 1001, count):
        recs = [(0x10000 + 8 * i, bytes([(i * 7) & 0xFF, (i >> 8) & 0xFF]), "plain") if i % 5 else (0x10000 + 8 * i, (3, i & 0xFF), "rle") for i in range(n)]
        data = ips.build(recs)
        parsed = ips.parse(data)
        out = impl.assemble(host("between", ".include_ips 'p.ips', 0x10\n"), rom="low_rom", files={"p.ips": data})
        evals += 1
        if not out.accepted:
            viol.append({"key": "include_ips:wellformed-rejected:many-records", "msg": f"{n} records: {out.brief()[:200]}"})
        elif [b for b in out.blocks if b != HOST_BLOCK] != [(o + 0x10, p) for o, p, _ in parsed]:
            viol.append({"key": "include_ips:wrong-records:many-records", "msg": f"{n} records: writer calls differ from the patch records"})
    return {"evals": evals, "nt_count": evals, "state_count": evals, "transitions": evals, "outcome": "many-ok" if not viol else "MANY-WRONG", "violations": viol, "depth": 1}


LEADS = ["none", "p5000", "pmax", "rmax", "r4+p3"]


def run_sizes(lead, lo, hi):
    viol = []
    evals = 0
    outcomes = set()
    for ln in range(lo, hi):
        recs = []
        if lead == "p5000":
            recs.append((0x20000, bytes((i * 7 + 1) & 0xFF for i in range(5000)), "plain"))
        elif lead == "pmax":
            recs.append((0x20000, bytes((i * 11 + 3) & 0xFF for i in range(0xFFFF)), "plain"))
        elif lead == "rmax":
            recs.append((0x20000, (0xFFFF, 0x5A), "rle"))
        elif lead == "r4+p3":
            recs += [(0x20000, (4, 0x5B), "rle"), (0x20100, b"\x01\x02\x03", "plain")]
        recs.append((0x40000, bytes(((i * 13 + ln) ^ (i >> 8)) & 0xFF for i in range(ln)), "plain"))
        tail = ln % 3
        if tail == 1:
            recs.append((0x60000, (3, 0x6C), "rle"))
        elif tail == 2:
            recs.append((0x60000, b"\x45", "plain"))
        data = ips.build(recs)
        parsed = ips.parse(data)
        expected = [(o + 0x10, p) for o, p, _ in parsed]
        src = host("between", ".include_ips 'p.ips', 0x10\n")
        out = impl.assemble(src, rom="low_rom", files={"p.ips": data})
        evals += 1
        desc = f"lead={lead} record length {ln} (file size {len(data)}, end marker at file offset {len(data) - 3})"
        if not out.accepted:
            viol.append({"key": "include_ips:wellformed-rejected:file-size", "msg": f"{desc}: {out.brief()}"})
            outcomes.add("REJECTED")
        elif [b for b in out.blocks if b != HOST_BLOCK] != expected:
            viol.append({"key": "include_ips:wrong-records:file-size", "msg": f"{desc}: writer calls differ from the patch records"})
            outcomes.add("WRONG-RECORDS")
        else:
            outcomes.add("ok")
        if len(viol) > 20:
            break
    return {"evals": evals, "nt_count": evals, "state_count": evals, "transitions": evals, "outcome": sorted(outcomes),
            "violations": viol[:20], "depth": 3}


def run_case(case):
    if case[0] == "many-records":
        return run_many(case[1])
    if case[0] == "size":
        return run_sizes(case[1], case[2], case[3])
    if case[0] == "seq":
        return run_seq(case[1])
    return run_malformed()
