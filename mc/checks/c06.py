"""C06 - expressions evaluate to their conventional integer value (all trees up to a bound)."""
from __future__ import annotations

import re

from mc import impl
from mc.ref import expr as rx

ID = "C06"
LEVEL = "exploration"
LEVEL_TEXT = ("Complete enumeration of every expression tree with <=3 binary operators (thorough: <=4) over the 7 binary "
              "operators with up to two unary operators at any node (stacked ones included), rendered with minimal and with "
              "redundant parentheses and five spacing styles (incl. a blank on one side of an operator only), evaluated by the real code in nine contexts (string evaluator, "
              "immediate and direct instruction operand, .dl, `=`, `:=`, macro argument, .if, .for bound) and compared with an independent tree "
              "evaluator; plus all operator pairs around boundary literals and all literal spellings. The suite has ~15 "
              "hand-written expressions; this covers every operator combination within the bound.")
LEVEL_NOTE = ("Trusted: mc/ref/expr.py (tree evaluator with the precedence order stated in C06). Trees that apply ~ to a negative "
              "or >32-bit value or shift by a negative/>64 amount are dropped (statement silent). Directive-context lexer accepts "
              "neither | nor ~ (frozen observation); such trees are evaluated in operand contexts only.")
TECHNIQUE = "exhaustive enumeration of expression trees x renderings x evaluation contexts against a reference evaluator"
RULE = ("case = (tree family chunk); every tree of the chunk is rendered and each text evaluated in each applicable context. "
        "evaluations = (text, context) pairs executed. non-trivial = tree mixes >=2 precedence levels or contains a unary "
        "operator; counted per distinct (text) once.")
ASSUMPTIONS = ["reference evaluator mc/ref/expr.py", "frozen per-context operator sets: operand + - * & | ~ << >> ( ); directive + - * & << >> ( )"]

LEAVES = {
    "A": [("n", 3, "3"), ("n", 5, "0x5"), ("n", 7, "7"), ("n", 2, "0b10"), ("n", 11, "11")],
    "B": [("n", 13, "0x0d"), ("n", 2, "2"), ("n", 11, "q1"), ("n", 1, "1"), ("n", 6, "0x6")],
}
PRELUDE = "q1 := 11\n"
BOUNDARY = [0, 1, 0x7F, 0x80, 0xFF, 0x100, 0xFFFF, 0x10000, 0xFFFFFFFF, 0x100000000]
DIRECTIVE_OK = {"+", "-", "*", "&", "<<", ">>", "u-"}


def bound(tier):
    if tier == "thorough":
        return "trees: <=3 binary ops x <=2 unary (all renderings, all contexts); 4 binary ops x <=1 unary (2 renderings, 2 contexts); operator pairs x 10 boundary literals; literal spellings; 31 malformed texts x 11 contexts"
    return "trees: <=2 binary ops x <=2 unary (7 renderings, 11 contexts); 3 binary ops x <=1 unary (2 renderings, 2 contexts); operator pairs x 10 boundary literals; literal spellings; 31 malformed texts x 11 contexts"


def cases(tier, seed):
    # full profile
    full_max = 3 if tier == "thorough" else 2
    for nbin in range(0, full_max + 1):
        for ski in range(len(rx.skeletons(nbin))):
            for op0 in (rx.BINOPS if nbin else [None]):
                for ls in ("A", "B"):
                    yield ("tree", nbin, ski, op0, ls, 2, "full")
    lite_n = 4 if tier == "thorough" else 3
    for ski in range(len(rx.skeletons(lite_n))):
        for op0 in rx.BINOPS:
            for ls in (("A",) if tier == "thorough" else ("A", "B")):
                yield ("tree", lite_n, ski, op0, ls, 1, "lite")
    for op1 in rx.BINOPS:
        for op2 in rx.BINOPS:
            yield ("pair", op1, op2)
    yield ("unary-boundary",)
    yield ("literals",)
    yield ("malformed",)
    yield ("after-failure",)


def describe(case, res):
    d = {"case": list(case), "outcome": res.get("outcome")}
    if res.get("example"):
        d["example"] = res["example"]
    return d


# ---- contexts -----------------------------------------------------------------------------

_resolver = None


def ctx_str(text):
    from a816.parse.ast.expression import eval_expression_str
    from a816.symbols import Resolver
    r = Resolver()
    r.current_scope.add_symbol("q1", 11)
    ok, v = impl.guarded(eval_expression_str, text, r, timeout=5)
    if not ok:
        raise TimeoutError("eval_expression_str did not return")
    return v


def _asm(src):
    out = impl.assemble(PRELUDE + src)
    if not out.accepted:
        raise RuntimeError(out.brief())
    return out


def _bytes(out):
    return b"".join(b for _, b in out.blocks)


def ctx_opw(text):
    d = _bytes(_asm(f"lda.w #{text}\n"))
    if len(d) != 3 or d[0] != 0xA9:
        raise RuntimeError("unexpected bytes " + d.hex())
    return int.from_bytes(d[1:], "little")


def ctx_opdirect(text):
    d = _bytes(_asm(f"lda.l {text}\n"))
    if len(d) != 4 or d[0] != 0xAF:
        raise RuntimeError("unexpected bytes " + d.hex())
    return int.from_bytes(d[1:], "little")


def ctx_opauto(text):
    """Unsized direct operand: the expression is evaluated by the label pass (to choose the width) and again at emission."""
    d = _bytes(_asm(f"lda {text}\n"))
    if not d or {2: 0xA5, 3: 0xAD, 4: 0xAF}.get(len(d)) != d[0]:
        raise RuntimeError("unexpected bytes " + d.hex())
    v = int.from_bytes(d[1:], "little")
    if (len(d) == 3 and v <= 0xFF) or (len(d) == 4 and v <= 0xFFFF):
        raise RuntimeError("wider form than the value needs: " + d.hex())
    return v


def ctx_twice(text):
    """The same expression node evaluated for two applications of one macro body and for two loop iterations."""
    d = _bytes(_asm(f".macro mt() {{\n.dl {text}\n}}\nmt()\nmt()\n.for qq := 0, 2 {{\n.dl {text}\n}}\n"))
    if len(d) != 12 or not (d[0:3] == d[3:6] == d[6:9] == d[9:12]):
        raise RuntimeError("the four evaluations differ: " + d.hex())
    return int.from_bytes(d[:3], "little")


def wholly_parenthesised(text):
    t = text.strip()
    if not t.startswith("("):
        return False
    depth = 0
    for i, c in enumerate(t):
        depth += c == "("
        depth -= c == ")"
        if depth == 0:
            return i == len(t) - 1
    return False


def ctx_dl(text):
    d = _bytes(_asm(f".dl {text}\n"))
    if len(d) != 3:
        raise RuntimeError("unexpected bytes " + d.hex())
    return int.from_bytes(d, "little")


def ctx_eq(text):
    return _asm(f"vv = {text}\n").symbols["vv"]


def ctx_assign(text):
    return _asm(f"vv := {text}\n").symbols["vv"]


def ctx_macro(text):
    d = _bytes(_asm(f".macro mm(pp) {{\n.dl pp\n.dl pp>>24\n}}\nmm({text})\n"))
    if len(d) != 6:
        raise RuntimeError("unexpected bytes " + d.hex())
    return int.from_bytes(d, "little")


def ctx_if(text):
    d = _bytes(_asm(f".if {text} {{\n.db 1\n}} else {{\n.db 0\n}}\n"))
    return d[0]


def ctx_for(text):
    d = _bytes(_asm(f".for ii := 0, {text} {{\n.db ii\n}}\n.db 0xEE\n"))
    if d[-1] != 0xEE or d[:-1] != bytes(range(len(d) - 1)):
        raise RuntimeError("unexpected loop bytes " + d.hex())
    return len(d) - 1


# name -> (fn, lexer context, expected-from-value, applicable(value))
CONTEXTS = {
    "str": (ctx_str, "operand", lambda v: v, lambda v: True),
    "opw": (ctx_opw, "operand", lambda v: v & 0xFFFF, lambda v: True),
    # direct (non-immediate) instruction operand; `lda.l (expr)` would be the indirect syntax, so that spelling is skipped
    "opdirect": (ctx_opdirect, "operand", lambda v: v, lambda v: 0 <= v <= 0xFFFFFF),
    "opauto": (ctx_opauto, "operand", lambda v: v, lambda v: 0 <= v <= 0xFFFFFF),
    "twice": (ctx_twice, "directive", lambda v: v & 0xFFFFFF, lambda v: True),
    "dl": (ctx_dl, "directive", lambda v: v & 0xFFFFFF, lambda v: True),
    "eq": (ctx_eq, "directive", lambda v: v, lambda v: True),
    "assign": (ctx_assign, "directive", lambda v: v, lambda v: True),
    "macro": (ctx_macro, "directive", lambda v: v & 0xFFFFFFFFFFFF, lambda v: True),
    "if": (ctx_if, "directive", lambda v: 1 if v != 0 else 0, lambda v: True),
    "for": (ctx_for, "directive", lambda v: v, lambda v: 0 <= v <= 24),
}
FULL = list(CONTEXTS)
LITE = ["str", "eq"]


def fmt(v):
    if isinstance(v, int) and v.bit_length() > 256:
        return f"<{v.bit_length()}-bit integer>"
    return str(v)


def pattern(text):
    return re.sub(r"0x[0-9a-fA-F]+|0b[01]+|\d+|q1", "n", text).replace(" ", "")


def signature(tree):
    """Coarse failure class: the first stacked unary pair if any, else the set of operators used."""
    def stacked(t):
        if t[0] == "u":
            if t[2][0] == "u":
                return t[1] + t[2][1]
            return stacked(t[2])
        if t[0] == "b":
            return stacked(t[2]) or stacked(t[3])
        return None
    st = stacked(tree)
    if st:
        return "stacked-unary " + st
    return "ops " + " ".join(sorted(rx.ops_used(tree))) if tree[0] != "n" else "literal"


def check_text(tree, text, value, ctxs, viol, stats):
    used = rx.ops_used(tree)
    sig = signature(tree)
    n = 0
    for name in ctxs:
        fn, lexer, proj, applicable = CONTEXTS[name]
        if lexer == "directive" and not used <= DIRECTIVE_OK:
            continue
        if not applicable(value):
            continue
        if name in ("opdirect", "opauto") and wholly_parenthesised(text):
            continue
        n += 1
        try:
            got = fn(text)
        except BaseException as e:  # noqa: BLE001
            if isinstance(e, (KeyboardInterrupt, SystemExit, impl.Timeout)):
                raise
            viol.append({"key": f"expr:{lexer}-context:rejected:{sig}",
                         "msg": f"`{text}` = {fmt(value)} by the reference but context {name} failed: {type(e).__name__}: {str(e)[:120]}"})
            stats["fail"] = stats.get("fail", 0) + 1
            continue
        if got != proj(value):
            viol.append({"key": f"expr:{lexer}-context:wrong-value:{sig}",
                         "msg": f"`{text}` must be {fmt(proj(value))} (full value {fmt(value)}) in context {name}, got {fmt(got)}"})
            stats["wrong"] = stats.get("wrong", 0) + 1
    return n


RENDERINGS_FULL = [("min", ""), ("min", " "), ("min", "x"), ("min", "l"), ("min", "r"), ("full", ""), ("full", "x")]
RENDERINGS_LITE = [("min", ""), ("full", " ")]


def run_trees(nbin, ski, op0, ls, max_un, profile):
    import itertools
    sk = rx.skeletons(nbin)[ski]
    nn = rx.count_nodes(sk)
    leaves = LEAVES[ls]
    viol = []
    stats = {}
    evals = nt = dropped = ntrees = 0
    example = None
    rends = RENDERINGS_FULL if profile == "full" else RENDERINGS_LITE
    ctxs = FULL if profile == "full" else LITE
    rest = nbin - 1 if nbin else 0
    for ops_rest in itertools.product(rx.BINOPS, repeat=rest):
        ops = ((op0,) + ops_rest) if nbin else ()
        for un in rx.unary_placements(nn, max_un):
            tree = rx.build(sk, ops, leaves[: nbin + 1], un)
            ntrees += 1
            try:
                value = rx.evaluate(tree)
            except rx.Undefined:
                dropped += 1
                continue
            nontrivial = len(rx.levels_used(tree)) >= 2 or any(o.startswith("u") for o in rx.ops_used(tree))
            for style, sp in rends:
                text = rx.render(tree, style, sp)
                evals += check_text(tree, text, value, ctxs, viol, stats)
                if nontrivial:
                    nt += 1
                if example is None and nontrivial and style == "min":
                    example = {"text": text, "value": value}
            if len(viol) > 60:
                break
    oc = ["trees-ok" if not viol else "TREES-VIOLATION"]
    return {"evals": max(evals, 1), "nt_count": nt, "outcome": oc, "violations": viol[:60], "example": example,
            "extra": {"trees": ntrees, "trees_dropped_undefined": dropped}, "depth": nbin}


def run_pair(op1, op2):
    viol = []
    stats = {}
    evals = nt = 0
    a = ("n", 5, "5")
    b = ("n", 3, "0x3")
    for L in BOUNDARY:
        for spell in (hex(L), str(L)):
            lit = ("n", L, spell)
            for pos in range(3):
                xs = [a, b, lit]
                xs.insert(pos, xs.pop())  # literal at position pos
                t1 = ("b", op2, ("b", op1, xs[0], xs[1]), xs[2])
                t2 = ("b", op1, xs[0], ("b", op2, xs[1], xs[2]))
                for t in (t1, t2):
                    for u in (None, "-", "~"):
                        tt = t
                        if u:
                            # unary on the middle operand
                            if t is t1:
                                tt = ("b", op2, ("b", op1, xs[0], ("u", u, xs[1])), xs[2])
                            else:
                                tt = ("b", op1, xs[0], ("b", op2, ("u", u, xs[1]), xs[2]))
                        try:
                            v = rx.evaluate(tt)
                        except rx.Undefined:
                            continue
                        text = rx.render(tt, "min", "")
                        evals += check_text(tt, text, v, FULL, viol, stats)
                        nt += 1
    return {"evals": max(evals, 1), "nt_count": nt, "outcome": "pairs-ok" if not viol else "PAIRS-VIOLATION",
            "violations": viol[:40], "example": {"pair": [op1, op2]}}


def run_unary_boundary():
    viol = []
    stats = {}
    evals = nt = 0
    lits = [("n", L, hex(L)) for L in BOUNDARY + [2, 3, 0xFE, 0x101, 0xFFFE, 0x10001, 0x7FFFFFFF, 0x80000000, 0xFFFFFFFE]]
    # the width of a complement comes from the VALUE, not from how many digits were written
    lits += [("n", v, t) for v, t in ((0xFF, "0x00ff"), (0xF0, "0x00f0"), (0x0F, "0x0000000f"), (0x1234, "0x00001234"), (5, "0b00000101"),
                                      (0x100, "0x0100"), (0, "0x0000"), (1, "0001" if False else "0x01"))]
    for lit in lits:
        L = lit[1]
        for pre in [("~",), ("-",), ("~", "~"), ("-", "~"), ("-", "-"), ("~", "~", "~"), ("-", "-", "~"), ("~", "-"), ("~", "~", "-"), ("-", "~", "-")]:
            t = lit
            for u in reversed(pre):
                t = ("u", u, t)
            for wrap in (None, "|", "+", "<<"):
                tt = t if wrap is None else ("b", wrap, ("n", 7, "7"), t)
                try:
                    v = rx.evaluate(tt)
                except rx.Undefined:
                    continue
                for style, sp in (("min", ""), ("min", "x")):
                    text = rx.render(tt, style, sp)
                    evals += check_text(tt, text, v, FULL, viol, stats)
                    nt += 1
    return {"evals": evals, "nt_count": nt, "outcome": "unary-ok" if not viol else "UNARY-VIOLATION", "violations": viol[:40]}


def run_literals():
    viol = []
    stats = {}
    evals = nt = 0
    lits = []
    for k in range(0, 33):
        for v in {max((1 << k) - 1, 0), 1 << k, (1 << k) + 1}:
            lits += [(v, hex(v)), (v, "0x" + f"{v:X}"), (v, str(v)), (v, bin(v)), (v, "0x" + f"{v:x}".rjust(8, "0"))]
    lits += [(0xABCDEF, "0xabcdef"), (0xABCDEF, "0xABCDEF"), (0xABCDEF, "0xaBcDeF"), (0x123456789, "0x0123456789"),
             (0b101101, "0b101101"), (1234567890, "1234567890"), (90, "90"), (109, "109")]
    seen = set()
    for v, text in lits:
        if text in seen:
            continue
        seen.add(text)
        t = ("n", v, text)
        evals += check_text(t, text, v, FULL, viol, stats)
        t2 = ("b", "+", t, ("n", 1, "1"))
        evals += check_text(t2, text + "+1", v + 1, FULL, viol, stats)
        nt += 2
    return {"evals": evals, "nt_count": nt, "outcome": "literals-ok" if not viol else "LITERALS-VIOLATION", "violations": viol[:40]}


# texts that are not ONE well-formed expression: they may be rejected, or (leading zeros) mean the decimal number - never
# silently evaluate to something else, in any context
MALFORMED = [("010", 10), ("00", 0), ("007", 7), ("0x", None), ("0b", None), ("0b12", None), ("0b2", None), ("0xfg", None), ("0xg", None),
             ("1 2", None), ("5 5", None), ("1 2 +", None), ("1 )", None), ("( 1", None), ("1 +", None), ("+", None), ("* 2", None),
             ("1 + * 2", None), ("2 (3)", None), ("(1) (2)", None), ("1,2", None), ("3 q1", None), ("0x10 0x20", None), ("12abc", None),
             ("1_000", None), ("1.5", None), ("", None), ("()", None), ("~", None), ("1 ~", None), ("1 ~ 2", None)]


def run_malformed():
    viol = []
    evals = 0
    for text, allowed in MALFORMED:
        for name in FULL:
            fn, lexer, proj, applicable = CONTEXTS[name]
            if name in ("macro", "for", "if") and "," in text:
                continue  # a comma separates arguments / bounds there
            evals += 1
            try:
                got = fn(text)
            except BaseException as e:  # noqa: BLE001
                if isinstance(e, (KeyboardInterrupt, SystemExit, impl.Timeout)):
                    raise
                continue
            if allowed is not None and applicable(allowed) and got == proj(allowed):
                continue
            viol.append({"key": f"expr:{lexer}-context:malformed-text-evaluated:{name}",
                         "msg": f"`{text}` is not a well-formed expression" + (f" (or means {allowed})" if allowed is not None else "") +
                                f" but context {name} evaluated it to {fmt(got)}"})
    return {"evals": evals, "nt_count": evals, "outcome": "malformed-ok" if not viol else "MALFORMED-EVALUATED", "violations": viol[:40]}


def run_after_failure():
    """Evaluations that end in an error (comparison operators, unknown operators, undefined names, unbalanced parentheses) must
    leave nothing behind: the same list of expressions is checked after each kind of failed evaluation."""
    viol = []
    stats = {}
    evals = nt = 0
    spoilers = [".if -1 > 0 {\n}\n", ".if 3 + 2 == 5 {\n}\n", ".if 1 - nosuch1 != 2 {\n}\n", ".db 4 / 2\n", ".db (1 + 2\n", ".db 1 + nosuch2 * 3\n",
                "lda.w #~~\n", "lda.w #3 +\n", ".db 1 <<\n", "vv = -nosuch3 * 2\n", ".if ~1 < 2 {\n}\n"]
    probes = [("b", "+", ("n", 1, "1"), ("b", "*", ("n", 2, "2"), ("n", 3, "3"))), ("u", "-", ("n", 5, "5")), ("n", 0x11, "0x11"),
              ("b", "|", ("n", 0x10, "0x10"), ("u", "~", ("n", 3, "3"))), ("b", "-", ("n", 10, "10"), ("b", "-", ("n", 2, "2"), ("n", 3, "3"))),
              ("b", "<<", ("n", 1, "1"), ("b", "+", ("n", 2, "2"), ("n", 1, "1"))), ("b", "&", ("u", "-", ("n", 1, "1")), ("n", 0xFF, "0xff"))]
    for sp in spoilers:
        for _ in range(2):
            impl.assemble(PRELUDE + sp)
            try:
                ctx_str(sp.split("\n")[0].replace(".db ", "").replace(".if ", "").replace(" {", ""))
            except BaseException as e:  # noqa: BLE001
                if isinstance(e, (KeyboardInterrupt, SystemExit, impl.Timeout)):
                    raise
        for t in probes:
            v = rx.evaluate(t)
            for style, spc in (("min", ""), ("min", " ")):
                before = len(viol)
                evals += check_text(t, rx.render(t, style, spc), v, FULL, viol, stats)
                nt += 1
                for x in viol[before:]:
                    x["key"] = "expr:value-depends-on-an-earlier-failed-evaluation"
                    x["msg"] = f"after `{sp.strip()}`: " + x["msg"]
    return {"evals": evals, "nt_count": nt, "outcome": "after-failure-ok" if not viol else "AFTER-FAILURE-VIOLATION", "violations": viol[:10]}


def run_case(case):
    if case[0] == "after-failure":
        return run_after_failure()
    if case[0] == "malformed":
        return run_malformed()
    if case[0] == "tree":
        return run_trees(*case[1:])
    if case[0] == "pair":
        return run_pair(case[1], case[2])
    if case[0] == "unary-boundary":
        return run_unary_boundary()
    return run_literals()
