"""C03 - output holds exactly the emitted bytes at their mapped ROM offsets (event-sequence exploration)."""
from __future__ import annotations

import itertools

from mc import impl
from mc.checks.common import compare
from mc.gen import render
from mc.ref import asm as refasm
from mc.ref import bus as refbus
from mc.ref import expr as rx

ID = "C03"
LEVEL = "model_checking"
LEVEL_TEXT = ("Explicit enumeration of every sequence of layout events up to depth 4 over a 19-event alphabet (emit 1/3 bytes, "
              "self-address data, `*=` to window start / file offset 0 / the current run address / last byte of a bank / mirror / other bank / RAM / mirror of RAM (.map), `@=` to ROM same bank / "
              "other bank / RAM, open/close block, macro application, 2-iteration loop, conditional) plus depth 5 over the 13 core "
              "events (thorough: depth 5 full, depth 6 core), under LoROM, HiROM and two `.map` configurations; every sequence is "
              "rendered to source, assembled by the real assembler and its writer calls compared block by block with the reference "
              "assembler's prediction (offsets, contiguity, order, run addresses via self-address data and labels). "
              "Tests check the address of the first block of five tiny programs.")
LEVEL_NOTE = ("Trusted: mc/ref/asm.py + mc/ref/bus.py. `*=` to a RAM address leaves the output where it is (a new block starts at the "
              "current storage offset); only after an `@=` to a ROM address is that offset unspecified (not compared; bytes, order and "
              "run addresses still are). Programs whose advance leaves the mapped range are unspecified.")
TECHNIQUE = "explicit-state enumeration of layout event sequences; reference assembler predicts every block, compared with writer calls"
RULE = ("state = event sequence (program prefix with open-block stack); transition = appending one event. All sequences up to the depth "
        "bound are executed. non-trivial = accepted program with >=1 position move and >=2 emitting events; sequences are distinct "
        "by construction.")
ASSUMPTIONS = ["reference assembler mc/ref/asm.py", "blocks compared in writer-call order; offset ignored only after `*=` to RAM"]

N = rx.num
S = rx.sym

ADDR = {
    "low_rom": dict(zero=0x008000, start=0x018000, last=0x01FFFF, mirror=0x818010, other=0x02C000, ram=0x7E0100, r_same=0x01A000, r_other=0x038000, r_ram=0x7E2000),
    "high_rom": dict(zero=0x400000, start=0x410000, last=0x41FFFF, mirror=0xC10010, other=0x42C000, ram=0x7E0100, r_same=0x41A000, r_other=0x438000, r_ram=0x7E2000),
    # .map configuration A: LoROM-like, banks 00-3F mirrored at 80-BF, RAM 7E-7F
    "mapA": dict(ram_m=0xEE0100, zero=0x008000, start=0x018000, last=0x01FFFF, mirror=0x818010, other=0x02C000, ram=0x7E0100, r_same=0x01A000, r_other=0x038000, r_ram=0x7E2000),
    # .map configuration B: 64K windows, banks 40-6F, no mirror (mirror event targets a second ROM range F0-F3 with 32K windows), RAM 7E-7F
    "mapB": dict(zero=0x400000, start=0x410000, last=0x41FFFF, mirror=0xF18010, other=0x42C000, ram=0x7E0100, r_same=0x41A000, r_other=0x438000, r_ram=0x7E2000),
}
MAPS = {
    "mapA": [("1", (0x00, 0x3F), 0x8000, False, (0x80, 0xBF)), ("2", (0x7E, 0x7F), 0x10000, True, (0xEE, 0xEF))],
    "mapB": [("1", (0x40, 0x6F), 0x10000, False, None), ("3", (0xF0, 0xF3), 0x8000, False, None), ("2", (0x7E, 0x7F), 0x10000, True, None)],
}
EVENTS = ["E1", "E3", "ES", "OW", "OZ", "OH", "OL", "OM", "OB", "OR", "ORM", "RS", "RO", "RR", "BO", "BC", "MA", "FO", "IF"]
CORE = [e for e in EVENTS if e not in ("MA", "FO", "IF", "E3", "OZ", "ORM")]
CORE_CFG = [e for e in EVENTS if e not in ("MA", "FO", "IF", "E3")]  # HiROM / .map runs keep the offset-0 and RAM-mirror moves
MACRO = ("macro", "mm", ["pp"], [("label", "ml"), ("data", "db", [S("pp")]), ("data", "db", [("b", "&", S("ml"), N(0xFF))])])


def bound(tier):
    if tier == "thorough":
        return "all event sequences of depth <=5 over 19 events and depth 6 over 13 core events (LoROM); depth <=4 under HiROM and 2 .map configurations"
    return "all event sequences of depth <=4 over 19 events and depth 5 over 13 core events (LoROM); depth <=4 (13 core events) under HiROM and 2 .map configurations"


def cases(tier, seed):
    full_d = 5 if tier == "thorough" else 4
    core_d = 6 if tier == "thorough" else 5
    # LoROM: full alphabet to full_d, chunked by the first two events
    for d in range(1, full_d + 1):
        if d <= 2:
            yield ("seq", "low_rom", "full", d, ())
        else:
            for pre in itertools.product(range(len(EVENTS)), repeat=2):
                yield ("seq", "low_rom", "full", d, pre)
    for pre in itertools.product(range(len(CORE)), repeat=2):
        yield ("seq", "low_rom", "core", core_d, pre)
    for cfg in LAST:
        yield ("range-end", cfg)
    for cfg in ("high_rom", "mapA", "mapB"):
        for d in range(1, 5):
            if d <= 2:
                yield ("seq", cfg, "cfg", d, ())
            else:
                for pre in itertools.product(range(len(CORE_CFG)), repeat=2):
                    yield ("seq", cfg, "cfg", d, pre)


# ---- the last bytes of the mapped range ----------------------------------------------------------------------------
LAST = {"low_rom": 0x6FFFFF, "high_rom": 0xFFFFFF}   # last byte of the last mapped ROM bank (LoROM primary range, HiROM mirror range)


def run_range_end(cfg):
    """Programs whose last statement fills the mapped range up to its very last byte (nothing follows)."""
    ref = refbus_for(cfg)
    last = LAST[cfg]
    viol = []
    outcomes = set()
    n = 0
    for stmt, size, data in ((".db 0x5a", 1, b"\x5a"), (".dw 0x1234", 2, b"\x34\x12"), (".dl 0x123456", 3, b"\x56\x34\x12"), ("rts", 1, b"\x60"),
                             ("lda.w #0x1234", 3, b"\xa9\x34\x12")):
        start = last - size + 1
        src = f"*=0x{start:06x}\n{stmt}\n"
        out = impl.assemble(src, rom=cfg)
        n += 1
        if out.accepted and out.blocks == [(ref.phys(start), data)]:
            outcomes.add("range-end-ok")
        elif out.accepted:
            viol.append({"key": f"layout:wrong-bytes:{cfg}", "msg": f"expected {data.hex()} at {ref.phys(start):#x}, got {out.brief()} :: {src!r}"})
        else:
            viol.append({"key": f"layout:valid-program-rejected:fills-the-last-mapped-byte:{cfg}",
                         "msg": f"`{stmt}` ending exactly on the last mapped byte {last:#x} is rejected: {out.brief()} :: {src!r}"})
            outcomes.add("RANGE-END-REJECTED")
        # one byte earlier everything is fine (control)
        src2 = f"*=0x{start - 1:06x}\n{stmt}\n"
        out2 = impl.assemble(src2, rom=cfg)
        n += 1
        if not out2.accepted or out2.blocks != [(ref.phys(start - 1), data)]:
            viol.append({"key": f"layout:wrong-bytes:{cfg}", "msg": f"control one byte before the end: {out2.brief()} :: {src2!r}"})
    return {"evals": n, "nt_count": n, "state_count": n, "transitions": n, "outcome": sorted(outcomes) or ["none"], "violations": viol, "depth": 1}


def describe(case, res):
    d = {"case": list(case), "outcome": res.get("outcome")}
    if res.get("example"):
        d["example"] = res["example"]
    return d


def build(cfg, events):
    """Abstract program for an event sequence, or None if the sequence is ill-formed (close without open)."""
    a = ADDR[cfg]
    prog = []
    if cfg in MAPS:
        prog += [("map", d) for d in MAPS[cfg]]
    prog.append(MACRO)
    prog.append(("org", N(a["start"])))
    stack = [prog]
    for i, ev in enumerate(events):
        cur = stack[-1]
        k = 0x20 + i * 0x11
        if ev == "E1":
            cur.append(("data", "db", [N(k)]))
        elif ev == "E3":
            cur.append(("ins", "lda", "w", ("#", "", ""), N(0x1000 + k)))
        elif ev == "ES":
            cur.append(("label", f"L{i}"))
            cur.append(("data", "dl", [S(f"L{i}")]))
        elif ev == "OW":
            cur.append(("org", N(a["start"])))
        elif ev == "OZ":
            cur.append(("org", N(a["zero"])))
        elif ev == "OH":
            # `*=` to the run address already reached (through a label): must still move the output offset there
            cur.append(("label", f"H{i}"))
            cur.append(("org", S(f"H{i}")))
        elif ev == "OL":
            cur.append(("org", N(a["last"])))
        elif ev == "OM":
            cur.append(("org", N(a["mirror"])))
        elif ev == "OB":
            cur.append(("org", N(a["other"])))
        elif ev == "OR":
            cur.append(("org", N(a["ram"])))
        elif ev == "ORM":
            # mirror bank of a RAM range (exists only in .map configuration A; elsewhere it aliases the plain RAM move)
            cur.append(("org", N(a.get("ram_m", a["ram"] + 0x40))))
        elif ev == "RS":
            cur.append(("reloc", N(a["r_same"])))
        elif ev == "RO":
            cur.append(("reloc", N(a["r_other"])))
        elif ev == "RR":
            cur.append(("reloc", N(a["r_ram"])))
        elif ev == "BO":
            body = []
            cur.append(("block", body))
            stack.append(body)
        elif ev == "BC":
            if len(stack) == 1:
                return None
            stack.pop()
        elif ev == "MA":
            cur.append(("call", "mm", [N(k)]))
        elif ev == "FO":
            cur.append(("for", "ii", N(0), N(2), [("data", "db", [("b", "+", S("ii"), N(k))])]))
        elif ev == "IF":
            cur.append(("if", N(1), [("data", "db", [N(k)])], [("data", "db", [N(0xFF)])]))
    return prog


def refbus_for(cfg):
    if cfg in MAPS:
        b = refbus.RefBus(cfg)
        for ident, banks, size, ram, mir in MAPS[cfg]:
            b.map(ident, banks, size, ram=ram, mirror=mir)
        return b
    return refbus.BUILTIN[cfg]()


def run_case(case):
    if case[0] == "range-end":
        return run_range_end(case[1])
    _, cfg, alpha, depth, pre = case
    alphabet = {"full": EVENTS, "core": CORE, "cfg": CORE_CFG}[alpha]
    viol = []
    outcomes = set()
    n = nt = states = 0
    example = None
    rest = depth - len(pre)
    rom = cfg if cfg in ("low_rom", "high_rom") else None
    for tail in itertools.product(range(len(alphabet)), repeat=rest):
        events = [alphabet[i] for i in pre + tail]
        prog = build(cfg, events)
        if prog is None:
            continue
        states += 1
        src = render.source(prog)
        v = refasm.RefAsm(refbus_for(cfg)).assemble(prog)
        out = impl.assemble(src, rom=rom)
        n += 1
        if out.status == "timeout":
            viol.append({"key": "layout:timeout", "msg": src})
            continue
        vs = compare(out, v, "layout", src)
        if vs:
            vs[0]["key"] += ":" + cfg
            viol += vs
            outcomes.add("VIOLATION")
        else:
            tag = v.status
            if v.status == "ok" and v.stats.get("ram_org"):
                tag = "ok-ram-org(offset-unspecified)"
            outcomes.add(tag)
        if v.status == "ok" and v.stats["moves"] >= 2 and v.stats["emits"] >= 2:
            nt += 1
            if example is None and len(v.blocks) >= 2 and not vs:
                example = {"events": events, "source": src, "blocks": [(hex(a) if a is not None else None, b.hex()) for a, b in v.blocks]}
        if len(viol) > 25:
            break
    return {"evals": max(n, 1), "nt_count": nt, "state_count": states, "transitions": states, "outcome": sorted(outcomes) or ["none"],
            "violations": viol[:25], "example": example, "depth": depth}
