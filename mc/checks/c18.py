"""C18 - table-encoded text follows the table (longest match) and round-trips."""
from __future__ import annotations

import itertools

from mc import impl
from mc.ref import bus as refbus
from mc.ref import tbl

ID = "C18"
LEVEL = "exploration"
LEVEL_TEXT = ("Complete enumeration of tables = every subset of size 1-4 of the entry texts {a,b,ab,ba,aa,abc} x every assignment of 4 "
              "code styles (1-byte, 2-byte, 2-byte sharing its first byte with a 1-byte code, 2-byte starting with 00), plus duplicate-code tables, tables with a bare '[' entry and tables whose entry texts begin/end with blanks, x every string of length "
              "<=4 (thorough <=5) over {a,b,c,z,[0x41],[0x7F],[}, each pair through the real Table.to_bytes/to_text and compared with an "
              "independent longest-match tokenizer; a covering subset again through `.table` + `.text` programs in 9 scoping contexts (incl. two adjacent directives and a table loaded inside a loop body) "
              "with a label after the text. Five unit tests use one table and four strings.")
LEVEL_NOTE = ("Trusted: mc/ref/tbl.py. Round trip is claimed only for unique, prefix-free code sets and escape-free strings (the statement "
              "does not define decoding of raw bytes). The `:ignore` table syntax is outside the property.")
TECHNIQUE = "exhaustive enumeration of tables x strings against a reference longest-match tokenizer, plus round trip and scoping programs"
RULE = ("case = one table (codec family: all strings) or one (table, scoping context) (program family: all strings <=3). evaluations = "
        "(table, string) pairs / programs. non-trivial = table has overlapping entry texts (one a prefix of another) or the string has "
        "an escape or unknown character; (table, string) pairs are distinct by construction.")
ASSUMPTIONS = ["reference tokenizer mc/ref/tbl.py", "table files written as HEX=text lines with LF, CR LF or CR line ends (text-mode universal newlines), with or without the final line end"]

TEXTS = ["a", "b", "ab", "ba", "aa", "abc"]
ALPH = ["a", "b", "c", "z", "[0x41]", "[0x7F]", "[", " ", "="]
UTBL = {"a": b"\x61", "b": b"\x62", "c": b"\x63"}
ORG = 0x018000


def code_for(idx, style):
    if style == 0:
        return bytes([0x10 + idx])
    if style == 1:
        return bytes([0x80 + idx, 0x01])
    if style == 2:
        return bytes([0x10 + (idx + 1) % 6, 0x02])
    if style == 3:
        return bytes([0x00, 0x40 + idx])  # multi-byte code whose first byte is 00
    if style == 5:
        return bytes([0xFE, 0x01 + idx])          # styles 5-7: codes of different LENGTHS that share their first byte (still prefix-free)
    if style == 6:
        return bytes([0xFE, 0x41 + idx, 0x03])
    if style == 7:
        return bytes([0xFE, 0x81 + idx, 0x04, 0x05])
    return bytes([0x10])  # style 4: duplicate of entry 0's one-byte code


def all_tables():
    out = []
    for k in (1, 2, 3, 4):
        for subset in itertools.combinations(range(len(TEXTS)), k):
            for styles in itertools.product(range(4), repeat=k):
                out.append({TEXTS[i]: code_for(i, s) for i, s in zip(subset, styles)})
    # codes that share a first byte but differ in length
    for k in (2, 3):
        for subset in itertools.combinations(range(len(TEXTS)), k):
            for styles in itertools.product((0, 5, 6, 7), repeat=k):
                if len(set(styles) & {5, 6, 7}) >= 2:
                    out.append({TEXTS[i]: code_for(i, st) for i, st in zip(subset, styles)})
    # duplicate codes (flagged non-unique: encoding is still defined, round trip is not claimed)
    for subset in itertools.combinations(range(len(TEXTS)), 2):
        out.append({TEXTS[subset[0]]: code_for(subset[0], 4), TEXTS[subset[1]]: code_for(subset[1], 4)})
    # entry texts that begin or end with a blank, or are a single blank (the text is everything after '=')
    for extra in ({" a": b"\xD1"}, {" ": b"\x20", " a": b"\xD1"}, {"a ": b"\xD2"}, {"  ": b"\xD3", "a": b"\x10"}, {" a": b"\xD1", "a": b"\x10", "b": b"\x11"}):
        out.append(dict(extra))
    # entry texts that contain '=' (the text is everything after the FIRST '=' of the line)
    for extra in ({"=": b"\x3D", "a": b"\x10"}, {"a=b": b"\xF0", "a": b"\x10", "b": b"\x11"}, {"==": b"\xF1", "=": b"\x3D"}, {"=a": b"\xF2", "b": b"\x11"}):
        out.append(dict(extra))
    # tables with a bare '[' entry: the [0xNN] escape still means a raw byte
    for k in (0, 1, 2, 3):
        for subset in itertools.combinations(range(len(TEXTS)), k):
            for styles in itertools.product(range(4), repeat=k):
                t = {TEXTS[i]: code_for(i, s) for i, s in zip(subset, styles)}
                t["["] = bytes([0x5B])
                out.append(t)
    return out


_TABLES = None


def tables():
    global _TABLES
    if _TABLES is None:
        _TABLES = all_tables()
    return _TABLES


def strings(maxlen, bracket=True, blank=False, eq=False):
    alph = [x for x in ALPH if (bracket or x != "[") and (blank or x != " ") and (eq or x != "=")]
    yield ""
    for n in range(1, maxlen + 1):
        for tup in itertools.product(alph, repeat=n):
            yield "".join(tup)


def bound(tier):
    return (f"{len(tables())} tables x all strings of length <={5 if tier == 'thorough' else 4} over 7 symbols; "
            "every 61st table x strings <=3 x 9 scoping contexts as programs")


CONTEXTS = ["top", "inherit", "own", "macro", "scope", "reload", "late-own", "adjacent", "for-own"]


def cases(tier, seed):
    n = len(tables())
    for i in range(n):
        yield ("codec", i, 5 if tier == "thorough" else 4)
    for i in range(seed % 61, n, 61):
        for c in CONTEXTS:
            yield ("prog", i, c)
    yield ("quotes",)


def describe(case, res):
    d = {"case": list(case), "outcome": res.get("outcome")}
    if case[0] in ("codec", "prog"):
        d["table"] = {k: v.hex() for k, v in tables()[case[1]].items()}
    if res.get("example"):
        d["example"] = res["example"]
    return d


def file_style(text, k):
    """The same table as a file with LF, CR LF or CR line ends, or without the final line end."""
    k %= 4
    if k == 1:
        return text.replace("\n", "\r\n")
    if k == 2:
        return text[:-1] if text.endswith("\n") else text
    if k == 3:
        return text.replace("\n", "\r")
    return text


def overlapping(entries):
    ks = list(entries)
    return any(a != b and b.startswith(a) for a in ks for b in ks)


def run_codec(ti, maxlen):
    from script import Table
    entries = tables()[ti]
    impl.write_files({"t.tbl": file_style(tbl.table_file(entries), ti)})
    t = Table("t.tbl")
    upf = tbl.unique_prefix_free(entries)
    ov = overlapping(entries)
    viol = []
    evals = nt = rts = 0
    example = None
    # the lone '[' symbol is part of the string alphabet for tables that have a '[' entry and for every 16th other table
    for s in strings(maxlen, bracket=("[" in entries or ti % 16 == 0), blank=any(" " in k for k in entries) or ti % 16 == 1,
                     eq=any("=" in k for k in entries) or ti % 16 == 2):
        exp, matched, esc = tbl.encode(entries, s)
        evals += 1
        if ov or esc or "z" in s or "c" in s:
            nt += 1
        try:
            got = t.to_bytes(s)
        except Exception as e:  # noqa: BLE001
            viol.append({"key": "table:to_bytes-raises", "msg": f"table {entries} string {s!r}: {e!r}"})
            break
        if got != exp:
            viol.append({"key": "table:wrong-encoding" + (":overlapping-entries" if ov else ""),
                         "msg": f"table { {k: v.hex() for k, v in entries.items()} } string {s!r}: expected {exp.hex()} got {got.hex()}"})
            if len(viol) > 5:
                break
            continue
        if upf and not esc:
            rts += 1
            try:
                back = t.to_text(got)
            except Exception as e:  # noqa: BLE001
                back = repr(e)
            if back != "".join(matched):
                viol.append({"key": "table:round-trip", "msg": f"table { {k: v.hex() for k, v in entries.items()} } string {s!r} -> {got.hex()} -> {back!r}, expected {''.join(matched)!r}"})
                if len(viol) > 5:
                    break
            elif example is None and ov and len(matched) > 1:
                example = {"string": s, "bytes": got.hex(), "decoded": back}
    return {"evals": evals, "nt_count": nt, "outcome": ("prefix-free" if upf else "ambiguous-codes") + ("+overlap" if ov else ""),
            "violations": viol, "example": example, "extra": {"round_trips": rts}}


def program(ctx, s):
    """Returns (source, list of tables used by each emitted .text in order: 't' or 'u')."""
    txt = f".text '{s}'\n"
    if ctx == "top":
        return f"*=0x{ORG:06x}\n.table 't.tbl'\n{txt}after:\n.dw 0xEEDD\n", ["t"]
    if ctx == "inherit":
        return f"*=0x{ORG:06x}\n.table 't.tbl'\n{{\n{{\n{txt}}}\n}}\nafter:\n.dw 0xEEDD\n", ["t"]
    if ctx == "own":
        return f"*=0x{ORG:06x}\n.table 'u.tbl'\n{{\n.table 't.tbl'\n{txt}}}\n{txt}after:\n.dw 0xEEDD\n", ["t", "u"]
    if ctx == "macro":
        return (f"*=0x{ORG:06x}\n.macro mt() {{\n{txt}}}\n.table 't.tbl'\nmt()\n{{\n.table 'u.tbl'\nmt()\n}}\nmt()\nafter:\n.dw 0xEEDD\n",
                ["t", "u", "t"])
    if ctx == "adjacent":
        # two directives in a row are two strings: no entry can match across the boundary
        k = 1 if not s.startswith("[") else (s.index("]") + 1 if "]" in s else 1)
        return f"*=0x{ORG:06x}\n.table 't.tbl'\n.text '{s[:k]}'\n.text '{s[k:]}'\nafter:\n.dw 0xEEDD\n", ["t:" + s[:k], "t:" + s[k:]]
    if ctx == "for-own":
        # a table loaded inside a loop body belongs to the iteration: text after the loop uses the outer table again
        return f"*=0x{ORG:06x}\n.table 'u.tbl'\n.for qi := 0, 2 {{\n{txt}.table 't.tbl'\n{txt}}}\n{txt}after:\n.dw 0xEEDD\n", ["u", "t", "u", "t", "u"]
    if ctx == "reload":
        # a table loaded later in the same scope must not change text that precedes it
        return f"*=0x{ORG:06x}\n.table 't.tbl'\n{txt}.table 'u.tbl'\n{txt}after:\n.dw 0xEEDD\n", ["t", "u"]
    if ctx == "late-own":
        return f"*=0x{ORG:06x}\n.table 'u.tbl'\n{{\n{txt}.table 't.tbl'\n{txt}}}\n{txt}after:\n.dw 0xEEDD\n", ["u", "t", "u"]
    return f"*=0x{ORG:06x}\n.table 'u.tbl'\n.scope ns {{\n.table 't.tbl'\n{txt}inner:\n}}\n{txt}after:\n.dw 0xEEDD\n", ["t", "u"]


QUOTE_TABLE = {"a": b"\x10", "'": b"\x27", "\\": b"\x5C", "b": b"\x11", "n": b"\x12", "t": b"\x13"}


def run_quotes():
    """.text strings containing the escaped quote (backslash + quote stay in the text, both have table entries here)."""
    impl.write_files({"q.tbl": tbl.table_file(QUOTE_TABLE)})
    ref = refbus.lorom()
    viol = []
    evals = 0
    for n in range(1, 4):
        for tup in itertools.product(["a", "b", "\\'", "z", "\\n", "\\t", "n"], repeat=n):
            s_ = "".join(tup)
            src = f"*=0x{ORG:06x}\n.table 'q.tbl'\n.text '{s_}'\nafter:\n.dw 0xEEDD\n"
            exp = tbl.encode(QUOTE_TABLE, s_)[0]
            out = impl.assemble(src, rom="low_rom")
            evals += 1
            if not out.accepted or out.blocks != [(ref.phys(ORG), exp + b"\xdd\xee")] or dict(out.labels).get("after") != ORG + len(exp):
                viol.append({"key": "text:wrong-bytes:escaped-quote", "msg": f"expected {exp.hex()}+ddee got {out.brief()} :: {src!r}"})
    return {"evals": evals, "nt_count": evals, "outcome": "prog-quotes-ok" if not viol else "PROG-QUOTES-WRONG", "violations": viol[:6]}


def run_prog(ti, ctx):
    entries = tables()[ti]
    files = {"t.tbl": file_style(tbl.table_file(entries), ti // 61), "u.tbl": tbl.table_file(UTBL)}
    impl.write_files(files)
    ref = refbus.lorom()
    viol = []
    evals = nt = 0
    outcomes = set()
    example = None
    for s in strings(3):
        src, uses = program(ctx, s)
        out = impl.assemble(src, rom="low_rom")
        evals += 1
        exp = b"".join(tbl.encode(entries if u[0] == "t" else UTBL, u[2:] if ":" in u else s)[0] for u in uses)
        if overlapping(entries) or "[" in s or "z" in s:
            nt += 1
        if not out.accepted:
            viol.append({"key": f"text:rejected:{ctx}", "msg": f"{out.brief()} :: {src!r}"})
            outcomes.add("REJECTED")
        elif out.blocks != [(ref.phys(ORG), exp + b"\xdd\xee")]:
            viol.append({"key": f"text:wrong-bytes:{ctx}", "msg": f"expected {exp.hex()}+ddee got {out.brief()} :: {src!r} table { {k: v.hex() for k, v in entries.items()} }"})
            outcomes.add("WRONG-BYTES")
        elif dict(out.labels).get("after") != ORG + len(exp):
            viol.append({"key": f"text:wrong-layout:{ctx}", "msg": f"after={dict(out.labels).get('after')} expected {ORG + len(exp):#x} :: {src!r}"})
            outcomes.add("WRONG-LAYOUT")
        else:
            outcomes.add("ok")
            if example is None and len(exp) > 2:
                example = {"source": src, "blocks": out.brief()}
        if len(viol) > 5:
            break
    return {"evals": evals, "nt_count": nt, "outcome": [f"prog-{ctx}-{o}" for o in sorted(outcomes)], "violations": viol, "example": example}


def run_case(case):
    if case[0] == "quotes":
        return run_quotes()
    if case[0] == "codec":
        return run_codec(case[1], case[2])
    return run_prog(case[1], case[2])
