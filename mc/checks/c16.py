"""C16 - output does not depend on how the source text is laid out (metamorphic, all edit sites, singles and pairs)."""
from __future__ import annotations

import itertools
import re

from mc import impl
from mc.checks import c12
from mc.gen import render
from mc.ref import expr as rx
from mc.ref import ips as refips

ID = "C16"
LEVEL = "exploration"
LEVEL_TEXT = ("Complete enumeration, for 14 base programs that together contain every statement kind and every operand shape (generated "
              "programs plus the repository's sample source), of every applicable site of every listed presentation change: blank line, "
              "full-line ; comment, one-line and multi-line /* */ comment before each line; indentation by spaces or a tab, trailing "
              "spaces, end-of-line ; comment on each line; no newline after the last line; a space before/after every operator and comma; a space after an opening and "
              "before a closing bracket of an operand; upper-casing and mixed-casing each mnemonic and hexadecimal literal, upper-casing each size suffix and index register; comments with star runs, quotes and braces inside; "
              "moving every contiguous run of top-level statements into an .include file (also the same file included several times, and nested includes). All single edits and all unordered pairs "
              "(quick: pairs within an 8-line window, all pairs for the smaller programs) are applied and the variant's blocks, labels "
              "and root symbols compared with the base program's. Tests use one fixed layout per snippet.")
LEVEL_NOTE = ("Metamorphic: the base programs' absolute correctness is C01-C10's business. Sites not listed by the property are not edited "
              "(comment glued to a bare mnemonic, space between label and colon / mnemonic and suffix / inner index and ')', upper-case 0X "
              "or keywords). Base programs must assemble; that is asserted.")
TECHNIQUE = "exhaustive enumeration of layout edit sites (singles and pairs) on base programs; metamorphic equality of outputs"
RULE = ("case = (base program, chunk of the edit-pair space); evaluations = variants assembled. non-trivial = variant text differs from the "
        "base text and the base is accepted (every generated variant); variants are distinct by construction (distinct edit sets).")
ASSUMPTIONS = ["edit-site finder in this file works on the canonical text produced by mc/gen/render.py", "base programs are accepted"]

N = rx.num
S = rx.sym
DIRECT = ("", "", "")
ORG = 0x018000


def shapes_program():
    ins = lambda mn, sfx, shape, e: ("ins", mn, sfx, shape, e)  # noqa: E731
    return [
        ("const", "kc", N(0x12)), ("eq", "ke", N(0x1234)), ("org", N(ORG)), ("label", "back"),
        ins("lda", "", ("#", "", ""), N(0x12)), ins("lda", "w", ("#", "", ""), ("b", "+", N(0x1200), S("kc"))), ins("lda", "", DIRECT, N(0x12)),
        ins("lda", "", DIRECT, N(0x1234)), ins("lda", "", DIRECT, N(0x123456)), ins("lda", "b", ("", "", "x"), S("kc")),
        ins("lda", "w", ("", "", "y"), S("ke")), ins("lda", "", ("", "", "s"), N(0x03)), ins("lda", "", ("(", "", ""), N(0x12)),
        ins("lda", "", ("(", "", "y"), N(0x12)), ins("lda", "", ("(", "x", ""), N(0x12)), ins("lda", "", ("(", "s", "y"), N(0x03)),
        ins("lda", "", ("[", "", ""), N(0x12)), ins("lda", "", ("[", "", "y"), N(0x12)), ins("jmp", "", ("(", "", ""), N(0x1234)),
        ins("jmp", "", ("[", "", ""), N(0x1234)), ins("sta", "l", ("", "", "x"), ("b", "+", N(0x7E0000), ("b", "<<", S("kc"), N(4)))),
        ins("pea", "w", DIRECT, ("b", "&", S("back"), N(0xFFFF))), ins("ora", "b", ("#", "", ""), ("b", "|", N(0x10), ("b", ">>", S("ke"), N(8)))),
        ins("eor", "", ("(", "x", ""), ("b", "-", S("kc"), N(2))), ins("and", "", ("[", "", "y"), ("b", "*", N(2), N(3))),
        ins("nop", "", None, None), ("bra", "bne", S("back")), ins("rts", "", None, None),
        ("data", "db", [N(1), ("u", "-", N(2)), ("b", "+", S("kc"), N(1))]), ("data", "dw", [S("back"), ("b", "&", S("ke"), N(0xFF))]),
        ("data", "dl", [S("back")]), ("data", "pointer", [S("back")]),
    ]


def constructs_program():
    return [
        ("const", "kc", N(2)), ("table", "t.tbl"),
        ("macro", "mm", ["pa", "pb"], [("data", "db", [S("pa"), S("pb")]), ("label", "loc"), ("data", "dw", [S("loc")])]),
        ("macro", "mc", ["blk", "pv"], [("splice", "blk"), ("data", "db", [S("pv")])]),
        ("org", N(ORG)), ("label", "start"), ("call", "mm", [N(1), ("b", "+", S("kc"), N(1))]),
        ("call", "mc", [("code", [("data", "db", [N(0x77)]), ("ins", "nop", "", None, None)]), N(5)]),
        ("if", S("kc"), [("data", "db", [N(0x11)])], [("data", "db", [N(0x22)])]),
        ("if", ("b", "-", S("kc"), N(2)), [("data", "db", [N(0x33)])], None),
        ("for", "ii", N(0), ("b", "+", S("kc"), N(1)), [("data", "db", [("b", "*", S("ii"), N(2))])]),
        ("scope", "ns", [("label", "inner"), ("eq", "val", N(0x44)), ("data", "db", [S("val")])]), ("data", "dl", [S("ns.inner")]),
        ("block", [("label", "hidden"), ("data", "dw", [S("hidden")])]),
        ("text", "abba"), ("ascii", "Hi; there"), ("incbin", "blob.bin"), ("data", "dl", [S("blob_bin"), S("blob_bin__size")]),
        ("reloc", N(0x7E2000)), ("label", "inram"), ("data", "pointer", [S("inram")]),
        ("org", N(0x028000)), ("incips", "p.ips", ("b", "+", S("kc"), N(0x10))), ("data", "db", [N(9)]),
    ]


def repeated_program():
    run = [("data", "db", [N(1), N(2), N(3)]), ("data", "dw", [N(0x1234)]), ("ins", "nop", "", None, None)]
    return [("org", N(ORG)), ("label", "start")] + run + [("data", "db", [N(0x55)])] + run + [("ins", "rts", "", None, None)] + run + [("data", "dl", [S("start")])]


def map_program():
    return [("map", ("1", (0x00, 0x3F), 0x8000, False, (0x80, 0xBF))), ("map", ("2", (0x7E, 0x7F), 0x10000, True, None)),
            ("org", N(0x018000)), ("label", "a1"), ("data", "dl", [S("a1")]), ("org", N(0x818100)), ("label", "a2"), ("data", "dl", [S("a2")])]


PUSH_PULL_PRELUDE = ("source = 0x7E1234\nvramptr = 0x2000\ncount = 0x40\nmode = 0x01\ndma_transfer_to_vram = 0x028000\n"
                     "vwf_shift_table = 0x03F000\n*=0x018000\n")
FILES = dict(c12.FILES, **{"t.tbl": "10=a\n1112=ab\n20=b\n", "p.ips": refips.build([(0x100, b"\x01\x02", "plain"), (0x200, (3, 0x55), "rle")])})


# a hand-written program for layouts the renderer never produces: `else` on its own line, a `.map` line directly followed by
# a line that starts with an identifier, a label directly after a `.map`
CORNERS = """.map identifier=1 bank_range=0x00, 0x6f addr_range=0x8000, 0xffff mask=0x8000
foo = 1
.map identifier=2 bank_range=0x7e, 0x7f addr_range=0x0000, 0xffff mask=0x10000 writable=1
*=0x018000
start:
.if foo {
    lda.b #0x01
}
else {
    lda.b #0x02
}
.if foo - 1 {
    .db 0x11
}
else {
    .db 0x22
}
    lda (0x03,s),y
    lda (0x12,x)
.dl start
"""


def base_programs():
    progs = []
    defs = (("FOO", "5"), ("BAR", "0x3"))
    for name, prog in c12.programs("low", defs).items():
        progs.append(("c12-" + name, [("const", "FOO", N(5)), ("const", "BAR", N(3))] + prog))
    progs.append(("shapes", shapes_program()))
    progs.append(("constructs", constructs_program()))
    progs.append(("map", map_program()))
    progs.append(("repeated", repeated_program()))
    out = []
    for name, prog in progs:
        files = dict(FILES)
        files.update(render.files_of(prog))
        out.append((name, render.source(prog), files))
    out.append(("corners", CORNERS, dict(FILES)))
    import os
    sample = os.path.join(impl.REPO, "tests", "samples", "push_pull.s")
    try:
        out.append(("sample-push_pull", PUSH_PULL_PRELUDE + open(sample).read(), dict(FILES)))
    except OSError:
        pass
    return out


# ---- edit sites ---------------------------------------------------------------------------

OPS = re.compile(r"<<|>>|[+\-*&|]")


def outside_quotes(line):
    """Yield (start, end) spans of the line that are outside '...' strings and before any ; comment."""
    spans = []
    i = 0
    start = 0
    inq = False
    while i < len(line):
        c = line[i]
        if inq:
            if c == "\\" and i + 1 < len(line):
                i += 2
                continue
            if c == "'":
                inq = False
                start = i + 1
        else:
            if c == "'":
                spans.append((start, i))
                inq = True
            elif c == ";":
                spans.append((start, i))
                return spans
        i += 1
    if not inq:
        spans.append((start, len(line)))
    return spans


def is_opcode_line(line):
    from mc.ref import isa
    m = re.match(r"\s*([A-Za-z]{3})(\.[bwlBWL])?(\s|$)", line)
    return bool(m) and m.group(1).lower() in isa.BY_MNEMONIC


def line_sites(line):
    """In-line edit sites: list of (col, kind, payload)."""
    sites = []
    stripped = line.lstrip()
    lead = len(line) - len(stripped)
    if not stripped or stripped.startswith(";") or stripped.startswith("/*"):
        return sites
    spans = outside_quotes(line)
    opcode = is_opcode_line(line)
    for a, b in spans:
        seg = line[a:b]
        for m in OPS.finditer(seg):
            col = a + m.start()
            if m.group() == "*" and line[col:col + 2] == "*=":
                continue
            if line[col - 1:col] == "/" or line[col + 1:col + 2] == "/":
                continue  # comment delimiters
            sites.append((col, "space-before-operator", None))
            sites.append((col + len(m.group()), "space-after-operator", None))
        for m in re.finditer(r",", seg):
            col = a + m.start()
            sites.append((col, "space-before-comma", None))
            sites.append((col + 1, "space-after-comma", None))
        for m in re.finditer(r"0x[0-9a-fA-F]*[a-f][0-9a-fA-F]*", seg):
            sites.append((a + m.start(), "upper-hex", m.group()))
            sites.append((a + m.start(), "mixed-hex", m.group()))
        if opcode:
            for m in re.finditer(r"[(\[]", seg):
                sites.append((a + m.start() + 1, "space-after-open-bracket", None))
            for m in re.finditer(r"[)\]]", seg):
                col = a + m.start()
                sites.append((col, "space-before-close-bracket", None))
            for m in re.finditer(r",\s*([xys])(?=\s*[)\]]|\s*$|\s*,|\s*;)", seg):
                sites.append((a + m.start(1), "upper-index", m.group(1)))
    if opcode:
        sites.append((lead, "upper-mnemonic", stripped[:3]))
        for mask in range(1, 7):  # the six mixed-case spellings (all-upper is the edit above)
            sites.append((lead, f"mixed-case-mnemonic-{mask}", stripped[:3]))
        if stripped[3:4] == ".":
            sites.append((lead + 4, "upper-suffix", stripped[4]))
    return sites


def apply_inline(line, site):
    col, kind, payload = site
    if kind.startswith("space-"):
        return line[:col] + " " + line[col:]
    if kind == "upper-hex":
        return line[:col] + "0x" + payload[2:].upper() + line[col + len(payload):]
    if kind == "mixed-hex":
        mixed = "".join(c.upper() if i % 2 == 0 else c for i, c in enumerate(payload[2:]))
        return line[:col] + "0x" + mixed + line[col + len(payload):]
    if kind.startswith("mixed-case-mnemonic-"):
        mask = int(kind.rsplit("-", 1)[1])
        word = "".join(c.upper() if mask >> i & 1 else c.lower() for i, c in enumerate(payload))
        return line[:col] + word + line[col + len(payload):]
    return line[:col] + payload.upper() + line[col + len(payload):]


LINE_EDITS = ["blank-before", "semicolon-comment-before", "block-comment-before", "multiline-comment-before", "indent-spaces", "indent-tab",
              "trailing-spaces", "eol-comment", "star-comment-before", "doc-comment-before", "tricky-comment-before", "eol-tricky-comment", "opener-in-semicolon-comment-before",
              "eol-opener-comment", "slash-first-comment-before", "banner-comment-before", "empty-comment-before", "backslash-comment-before", "eol-backslash-comment"]
COMMENT_TEXT = {
    "star-comment-before": "/***/",
    "doc-comment-before": "/** documentation **/",
    "tricky-comment-before": "/* a * b ** c / d 'q' \"dq\" { } ; .db 1 ****/",
    "slash-first-comment-before": "/*/ a slash right after the opener */",
    "banner-comment-before": "/*//////// banner ////////*/",
    "empty-comment-before": "/**/",
    "backslash-comment-before": "; a comment that ends with a backslash: C:\\tools\\",
    "opener-in-semicolon-comment-before": "; graphics come from gfx/*.bin (a block-comment opener inside a line comment)",
}


def in_code_arg(lines, i):
    """Lines inside a macro-call code-block argument or a multi-line construct header where a decoration is still fine."""
    return False


def all_edits(lines):
    """Every edit as (line, col, kind, payload); line-level edits use col = -1 (before the line) or 10**6 (end of line)."""
    edits = []
    for i, line in enumerate(lines):
        if not line.strip():
            continue
        for kind in LINE_EDITS:
            if kind in ("indent-spaces", "indent-tab", "trailing-spaces", "eol-comment", "eol-tricky-comment", "eol-opener-comment", "eol-backslash-comment"):
                col = 10 ** 6 if kind in ("trailing-spaces", "eol-comment", "eol-tricky-comment", "eol-opener-comment", "eol-backslash-comment") else -2
            else:
                col = -1
            edits.append((i, col, kind, None))
        for s in line_sites(line):
            edits.append((i, s[0], s[1], s[2]))
    edits.append((len(lines), -1, "blank-before", None))  # blank line at the very end
    edits.append((len(lines) - 1, 10 ** 6 + 1, "no-final-newline", None))  # the text ends without a newline
    return edits


def apply_edits(lines, edits):
    """Apply a set of edits (descending position order keeps earlier positions valid)."""
    out = list(lines)
    for (i, col, kind, payload) in sorted(edits, key=lambda e: (e[0], e[1]), reverse=True):
        if kind == "blank-before":
            out.insert(i, "")
        elif kind == "semicolon-comment-before":
            out.insert(i, "; a full-line comment, with 'quotes' and { braces }")
        elif kind == "block-comment-before":
            out.insert(i, "/* one-line block comment ; */")
        elif kind == "multiline-comment-before":
            out[i:i] = ["/* a block comment", "   that spans lines */"]
        elif kind == "indent-spaces":
            out[i] = "   " + out[i]
        elif kind == "indent-tab":
            out[i] = "\t" + out[i]
        elif kind == "trailing-spaces":
            out[i] = out[i] + "   "
        elif kind == "no-final-newline":
            out.append("\0NOFINALNEWLINE")
        elif kind == "eol-comment":
            out[i] = out[i] + " ; trailing comment"
        elif kind == "eol-backslash-comment":
            out[i] = out[i] + " ; see C:\\data\\"
        elif kind == "eol-opener-comment":
            out[i] = out[i] + " ; see data/*.inc"
        elif kind == "eol-tricky-comment":
            out[i] = out[i] + " ; it's /* not a block */ 'x' { lda #1 } ;; **/"
        elif kind in COMMENT_TEXT:
            out.insert(i, COMMENT_TEXT[kind])
        else:
            out[i] = apply_inline(out[i], (col, kind, payload))
    return out


def top_level_runs(lines):
    """(i, j) line ranges made of complete top-level statements (brace depth 0 at both ends)."""
    depth = 0
    bounds = [0]
    for k, line in enumerate(lines):
        for a, b in outside_quotes(line):
            depth += line[a:b].count("{") - line[a:b].count("}")
        nxt = lines[k + 1].strip() if k + 1 < len(lines) else ""
        if depth == 0 and not (nxt.startswith("else") or nxt.startswith(".else")):
            bounds.append(k + 1)  # (a line that starts with `else` continues the .if statement of the previous line)
    runs = []
    for x in range(len(bounds)):
        for y in range(x + 1, len(bounds)):
            runs.append((bounds[x], bounds[y]))
    return runs


def with_include(lines, run, fname="moved.s"):
    i, j = run
    return lines[:i] + [f".include '{fname}'"] + lines[j:], "\n".join(lines[i:j]) + "\n"


# ---- cases --------------------------------------------------------------------------------

def bound(tier):
    return ("14 base programs; every single edit; " + ("all unordered pairs of edits and all triples within a 3-line window" if tier == "thorough" else
            "all pairs within an 8-line window (all pairs for programs with <= 150 sites)") + "; every top-level run moved to an .include file, alone and "
            "combined with every in-line edit")


def cases(tier, seed):
    n = len(base_programs())
    for p in range(n):
        yield ("singles", p)
        for chunk in range(16):
            yield ("include", p, chunk)
        for chunk in range(48):
            yield ("pairs", p, chunk, tier)
        if tier == "thorough":
            for chunk in range(48):
                yield ("triples", p, chunk)


def describe(case, res):
    d = {"case": list(case), "outcome": res.get("outcome")}
    if res.get("example"):
        d["example"] = res["example"]
    return d


def observe(src, files):
    out = impl.assemble(src, rom="low_rom", files=files)
    return out


def same(base, var):
    if base.status != var.status:
        return f"status {base.status} -> {var.status} ({var.brief()[:160]})"
    if base.blocks != var.blocks:
        return f"blocks differ: {base.brief()[:120]} vs {var.brief()[:120]}"
    if sorted(base.labels) != sorted(var.labels):
        return "label values differ"
    if base.symbols != var.symbols:
        return "root symbol values differ"
    return None


def run_case(case):
    kind, p = case[0], case[1]
    name, src, files = base_programs()[p]
    lines = src.rstrip("\n").split("\n")
    impl.write_files(files)  # once per case; variants only add the moved .include file
    base = observe(src, None)
    viol = []
    if not base.accepted:
        return {"evals": 1, "outcome": "BASE-REJECTED", "violations": [
            {"key": f"layout:base-program-rejected:{name}", "msg": f"{base.brief()} :: {src!r}"}]}
    edits = all_edits(lines)
    evals = 0
    outcomes = set()
    example = None

    def try_variant(var_lines, extra_files, tag):
        nonlocal evals, example
        if var_lines and var_lines[-1] == "\0NOFINALNEWLINE":
            text = "\n".join(var_lines[:-1])
        else:
            text = "\n".join(var_lines) + "\n"
        out = observe(text, extra_files or None)
        evals += 1
        diff = same(base, out)
        if diff:
            viol.append({"key": f"layout:{tag}", "msg": f"{name}: {diff} :: variant {text!r}"})
            outcomes.add("CHANGED")
        else:
            outcomes.add("unchanged")
            if example is None and len(var_lines) < 14:
                example = {"base": src, "variant": text, "edits": tag}

    if kind == "singles":
        for e in edits:
            try_variant(apply_edits(lines, [e]), {}, e[2])
            if len(viol) > 40:
                break
    elif kind == "include":
        inline = [e for e in edits if e[1] >= 0 and e[1] < 10 ** 6]
        if case[2] == 0:
            runs = top_level_runs(lines)
            # the same file included twice (or three times): identical, non-overlapping runs all replaced by one .include
            for ra in runs:
                text_a = lines[ra[0]:ra[1]]
                same_runs = [rb for rb in runs if rb[0] >= ra[1] and lines[rb[0]:rb[1]] == text_a and (rb[1] - rb[0]) == (ra[1] - ra[0])]
                picked = [ra]
                for rb in same_runs:
                    if rb[0] >= picked[-1][1]:
                        picked.append(rb)
                if len(picked) >= 2 and not any(ln.rstrip().endswith(":") for ln in text_a):
                    v = list(lines)
                    for r in reversed(picked):
                        v[r[0]:r[1]] = [".include 'moved.s'"]
                    try_variant(v, {"moved.s": "\n".join(text_a) + "\n"}, "same-file-included-%d-times" % len(picked))
            # nested include: a run moved to a file, an inner run of it moved to a second file
            for (i, j) in runs:
                if j - i < 3:
                    continue
                outer = lines[i:j]
                for (x, y) in top_level_runs(outer):
                    if (x, y) == (0, len(outer)) or y - x < 1:
                        continue
                    inner_v = outer[:x] + [".include 'moved2.s'"] + outer[y:]
                    v = lines[:i] + [".include 'moved.s'"] + lines[j:]
                    try_variant(v, {"moved.s": "\n".join(inner_v) + "\n", "moved2.s": "\n".join(outer[x:y]) + "\n"}, "nested-include")
                    if evals > 4000:
                        break
        for ri, run in enumerate(top_level_runs(lines)):
            if ri % 16 != case[2]:
                continue
            v, moved = with_include(lines, run)
            try_variant(v, {"moved.s": moved}, "moved-to-include")
            try_variant(v, {"moved.s": moved.rstrip("\n") + " ; last line, no newline"}, "moved-to-include+eol-comment+no-final-newline")
            # combined with every in-line edit (applied before the move, line indices unchanged)
            for e in inline:
                if (run[1] - run[0]) > 3:
                    break  # pairs only for short runs, singles for all
                el = apply_edits(lines, [e])
                v2, moved2 = with_include(el, run)
                try_variant(v2, {"moved.s": moved2}, "moved-to-include+" + e[2])
            if len(viol) > 40:
                break
    elif kind == "triples":
        # all unordered triples of edits within a 3-line window (thorough only)
        chunk = case[2]
        idx = 0
        for a, b, c in itertools.combinations(range(len(edits)), 3):
            ea, eb, ec = edits[a], edits[b], edits[c]
            if max(ea[0], eb[0], ec[0]) - min(ea[0], eb[0], ec[0]) > 2:
                continue
            idx += 1
            if idx % 48 != chunk:
                continue
            cols = [(e[0], e[1]) for e in (ea, eb, ec) if e[1] >= 0]
            if len(set(cols)) != len(cols):
                continue
            try_variant(apply_edits(lines, [ea, eb, ec]), {}, "+".join(sorted((ea[2], eb[2], ec[2]))))
            if len(viol) > 40:
                break
    else:
        _, _, chunk, tier = case
        if tier != "thorough":
            # quick: the extra spellings of one kind of edit are tried alone (singles) and in pairs only through one representative
            singles_only = {"mixed-case-mnemonic-2", "mixed-case-mnemonic-3", "mixed-case-mnemonic-4", "mixed-case-mnemonic-5",
                            "mixed-case-mnemonic-6", "mixed-hex", "star-comment-before", "doc-comment-before", "eol-tricky-comment"}
            edits = [e for e in edits if e[2] not in singles_only]
        allpairs = tier == "thorough" or len(edits) <= 150
        idx = 0
        for a, b in itertools.combinations(range(len(edits)), 2):
            ea, eb = edits[a], edits[b]
            if not allpairs and abs(ea[0] - eb[0]) > 7:
                continue
            idx += 1
            if idx % 48 != chunk:
                continue
            if ea[0] == eb[0] and ea[1] == eb[1] and ea[1] >= 0:
                continue  # two edits at the very same column
            if ea[0] == eb[0] and {ea[2], eb[2]} == {"indent-spaces", "indent-tab"}:
                pass
            try_variant(apply_edits(lines, [ea, eb]), {}, "+".join(sorted((ea[2], eb[2]))))
            if len(viol) > 40:
                break
    return {"evals": max(evals, 1), "nt_count": evals, "outcome": sorted(outcomes) or ["none"], "violations": viol[:40], "example": example}
