"""C17 - errors point at the statement that caused them (fault enumeration over every insertion line)."""
from __future__ import annotations

import re

from mc import impl

ID = "C17"
LEVEL = "fault_enumeration"
LEVEL_TEXT = ("Complete enumeration of base program (9 programs whose lines contain every construct that touches line bookkeeping: ; and "
              "/* */ comments, multi-line comments, blank lines, indentation, blocks, named scopes, macro definitions and applications, "
              "loops, conditionals, data lists, quoted strings, bare mnemonics with trailing comments, long files, form feed / NEL / U+2028 inside comments and strings) x every "
              "line boundary where a statement can stand x 38 faulty statements (24 further single-statement error classes: undefined macro, too few arguments, out-of-range branch, unmapped *=, missing files, ...; undefined symbol in an operand / in .db, bad size "
              "suffix, bad index register, unterminated string before a newline / at end of input / ending in a backslash, an undefined symbol on a continuation line of a statement that spans lines) x 4 indentations (none, spaces, tab, mixed; for one program also after a 40000 / 70000 / 140000-character comment on the same line) x 5 file "
              "situations (main file; inside an included file; in the main file after an include; inside an included file whose text was included a moment ago under another name; through the command line with -D definitions). The reported text must name the "
              "right file and zero-based line, quote that line, and for lexical errors give the column of the offending character. "
              "Four unit tests check an error on line 0 of a one-line program.")
LEVEL_NOTE = ("Observed through str(NodeError) / the string returned by assemble_string_with_emitter. Location format accepted: "
              "'<file>:<line>' followed by ':' or a space; column as '<file>:<line>:<column>'. Insertion points inside macro bodies are "
              "used only for macros that are applied afterwards.")
TECHNIQUE = "exhaustive fault injection at every line boundary of base programs; location oracle on the reported message"
RULE = ("case = (base program, fault, file situation); it injects the fault at every insertable line boundary with both indentations. "
        "evaluations = assemblies. non-trivial = insertion point is not line 0 (something precedes the faulty statement); all cases distinct.")
ASSUMPTIONS = ["a faulty statement inserted at a marked boundary is the first and only error of the program"]

# base programs: list of lines; a leading '>' marks "a statement may be inserted before this line" (removed before use)
BASE = {
    "plain": """>*=0x018000
>start:
>    lda.w #0x1234
>    sta.l 0x7e0010
>    nop
>    rts
>""",
    "comments": """>; leading comment
>*=0x018000 ; set position
>
>
>/* one-line block comment */
>start: ; a label
>    nop ; bare mnemonic with comment
>    nop
>    ; indented comment
>/* multi
   line
   comment */
>    lda.b #0x12
>/* block comment between statements */ nop
>    rts
>""",
    "blocks": """>*=0x018000
>outer = 0x12
>{
>    lda.b outer
>    inner:
>    {
>        .dw inner
>    }
>}
>.scope ns {
>    val = 0x44
>    .db val
>}
>.dl ns.val
>""",
    "macros": """>.macro two(a, b) {
>    .db a
>    .dw b
>}
>.macro wrap() {
>    two(1, 2)
>}
>*=0x018000
>two(3, 4)
>wrap()
>two(5,
    6)
>after:
>.dl after
>""",
    "loops": """>kc := 2
>*=0x018000
>.for i := 0, 3 {
>    .db i
>}
>.if kc {
>    .db 0x11
>} else {
    .db 0x22
}
>.db 0x33
>""",
    "data": """>*=0x018000
>.db 1, 2, 3
>.dw 0x1234, 0x5678
>.ascii 'text; with ; semicolons'
>.ascii 'it\\'s quoted'
>.dl 0x123456
>.pointer 0x018000
>""",
    "mixed-indent": """>\t*=0x018000
>\tlabel_a:
>\t\tlda.w #0x0001 ; tabs
>    label_b:
>        sta.w 0x2100
>
>\t
>    rts
>""",
    "long": ">*=0x018000\n" + "".join(f">    .db {i}, {i + 1}, {i + 2} ; line {i}\n" for i in range(0, 40, 3)) + ">",
    "odd-characters": ">*=0x018000\n>; comment with a form feed \x0c and a vertical tab \x0b inside\n>first:\n>    .ascii 'ff\x0cin string' ; and NEL \x85 here\n"
                      ">/* block comment with U+2028 \u2028 and U+2029 \u2029 inside */\n>    .db 1 ; caf\u00e9 \u00fc\n>second:\n>    .dw second\n>",
    # names that are valid inside a construct and undefined after it (the three extra faults below use exactly these spellings)
    "locals": """>*=0x018000
>.macro one(mp) {
    .db mp
}
>one(3)
>.for lv := 0, 2 {
    .db lv
}
>.scope sc {
    sv = 0x44
    .db sv
}
>.db 0x55
>""",
    "moves": """>*=0x018000
>first:
>    .db 1
>@=0x7e2000
>inram:
>    .pointer inram
>*=0x028000
>second:
>    .dl first, second
>""",
}
FAULTS = {
    "undefined-symbol-operand": ("lda.w nosuchsymbol", None),
    "undefined-symbol-db": (".db nosuchsymbol", None),
    "bad-size-suffix": ("lda.q 0x12", 4),
    "bad-index-register": ("lda 0x12,z", 9),
    "loop-variable-outside-its-loop": (".db lv", None),
    "macro-parameter-outside-its-macro": (".db mp", None),
    "scope-local-symbol-outside-its-scope": (".db sv", None),
    "unterminated-string": (".ascii 'abc", 7),
    "unterminated-string-at-eof": (".ascii 'abc", 7),
    "undefined-symbol-dw-before-multiline-comment": (".dw nosuchsymbol /* comment opened on the statement's line\n   and closed on the next */", None),
    "unterminated-string-ending-in-backslash": (".ascii 'C:\\data\\", 7),
    # statements that span several lines: the report names the line the statement starts on
    "undefined-symbol-on-a-continuation-line": (".dw 1,\n    nosuchsymbol,\n    3", None),
    "undefined-symbol-on-the-last-continuation-line": (".db 1,\n 2,\n nosuchsymbol", None),
    "undefined-operand-on-the-next-line": ("lda.w #\n   nosuchsymbol", None),
    # every other class of statement-specific failure: the report must name the statement's file and line and quote it
    # (third element: zero-based line of the faulty statement inside the inserted text, when valid definitions precede it)
    "empty-size-suffix": ("lda.", 4),
    "mode-the-mnemonic-lacks": ("sta #0x12", None),
    "width-the-mode-lacks": ("lda.l #0x123456", None),
    "index-the-mode-lacks": ("lda [0x12],x", None),
    "index-the-mnemonic-lacks": ("dec.b 1,y", None),
    "text-without-table": (".text 'abc'", None),
    "undefined-macro": ("nosuchmacro(1)", None),
    "too-few-macro-arguments": (".macro c17m(p, q) {\n.db p, q\n}\nc17m(1)", None, 3),
    "out-of-range-branch": ("bra 0x01f000", None),
    "branch-to-ram": ("bra 0x7e0000", None),
    "undefined-symbol-in-assignment": ("c17k := nosuchsymbol + 1", None),
    "undefined-symbol-in-loop-bound": (".for c17i := 0, nosuchsymbol {\n.db 1\n}", None),
    "undefined-symbol-in-ips-delta": (".include_ips 'ok.ips', nosuchsymbol", None),
    "org-to-unmapped-bank": ("*=0x700000", None),
    "missing-include": (".include 'nosuchfile.s'", None),
    "missing-incbin": (".incbin 'nosuchfile.bin'", None),
    "missing-table": (".table 'nosuchfile.tbl'", None),
    "missing-include-ips": (".include_ips 'nosuchfile.ips', 0", None),
    "malformed-ips-file": (".include_ips 'notips.bin', 0", None),
    "splice-undefined": ("{{c17nosuchblock}}", None),
    "unsupported-operator-in-if": (".if 1 == 1 {\n.db 1\n}", None),
    "unsupported-operator-in-data": (".db 2 > 1", None),
    "undefined-symbol-in-unused-assignment": ("c17u = nosuchsymbol + 1", None),
    "undefined-symbol-in-unused-macro-argument": (".macro c17ig(p) {\n.db 1\n}\nc17ig(nosuchsymbol)", None, 3),
}
COMMON_FILES = {"ok.ips": b"PATCH" + bytes([0x00, 0x10, 0x00, 0x00, 0x02, 0x41, 0x42]) + b"EOF", "notips.bin": b"this is not an ips patch"}
# very long lines: the faulty statement preceded ON ITS LINE by a block comment of this many characters (base 'plain' only)
LONG_PREFIXES = [40000, 70000, 140000]
SITUATIONS = ["main", "included", "main-after-include", "included-renamed", "cli-define"]
INC_VALID = "; included helper file\n\nhelper_value = 0x21\n/* with\n a comment */\n; end of helper\n"


def bound(tier):
    return "11 base programs x every insertable line boundary x 38 faults (3 of them statements spanning lines; every single-statement error class) x 4 indentations (none, spaces, tab, mixed; one program also after a 40000/70000/140000-character comment on the same line) x 5 file situations (main, included, main after an include, included under a new name, command line with -D; thorough: + nested include, + the 13 generated programs of the layout check)"


def parse_base(text):
    lines = []
    insertable = []
    for raw in text.split("\n"):
        if raw.startswith(">"):
            insertable.append(len(lines))
            raw = raw[1:]
        lines.append(raw)
    # the last element is the (empty) tail after the final newline: insertion there = appending a last line
    if lines and lines[-1] == "":
        lines.pop()
        insertable = [i for i in insertable if i <= len(lines)]
    return lines, insertable


def all_bases(tier):
    """Hand-written base programs, plus (thorough) the generated programs of the layout check with every top-level boundary."""
    bases = {k: parse_base(v) for k, v in BASE.items()}
    if tier == "thorough":
        from mc.checks import c16
        for name, src, files in c16.base_programs():
            lines = src.rstrip("\n").split("\n")
            depth = 0
            bounds = [0]
            for k, line in enumerate(lines):
                for a, b in c16.outside_quotes(line):
                    depth += line[a:b].count("{") - line[a:b].count("}")
                nxt = lines[k + 1].strip() if k + 1 < len(lines) else ""
                if depth == 0 and not line.rstrip().endswith(",") and not (nxt.startswith("else") or nxt.startswith(".else")):
                    bounds.append(k + 1)   # (a line that starts with `else` continues the .if statement of the line before)
            bases["gen-" + name] = (lines, bounds, files)
    return bases


_TIER = "quick"


def setup(tier, seed):
    global _TIER
    _TIER = tier


def cases(tier, seed):
    setup(tier, seed)
    for name in all_bases(tier):
        if name.startswith("gen-"):
            for f in FAULTS:
                for sit in SITUATIONS + ["included-nested"]:
                    yield ("fault", name, f, sit)
            continue
        yield ("control", name)
        for f in FAULTS:
            for sit in SITUATIONS + (["included-nested"] if tier == "thorough" else []):
                yield ("fault", name, f, sit)
    return
    for name in BASE:
        yield ("control", name)
        for f in FAULTS:
            for sit in SITUATIONS:
                yield ("fault", name, f, sit)


def describe(case, res):
    d = {"case": list(case), "outcome": res.get("outcome")}
    if res.get("example"):
        d["example"] = res["example"]
    return d


_KEEP = []  # the last few outcomes (with their Program / exception objects) stay referenced, as a long-running tool would do


def report_of(src, files, filename="main.s"):
    out = impl.assemble(src, rom="low_rom", filename=filename, files=files, keep_program=True)
    _KEEP.append(out)
    del _KEEP[:-4]
    if out.status == "err":
        return out, str(out.error)
    if out.status == "exc":
        return out, str(out.error)
    return out, None


class _Out:
    status = "err"


def cli_report(src, files):
    """The program through the command line (in-process) with two -D definitions; the report is what gets logged."""
    import logging
    import sys
    impl.write_files(dict(files, **{"main.s": src}))
    records = []

    class H(logging.Handler):
        def emit(self, record):
            try:
                records.append(record.getMessage())
            except Exception:  # noqa: BLE001
                records.append(str(record.msg))

    h = H()
    root = logging.getLogger()
    old_level = root.level
    logging.disable(logging.NOTSET)
    root.addHandler(h)
    saved = sys.argv
    sys.argv = ["x816", "main.s", "-o", "c17.out", "-D", "C17DEBUG=1", "C17LEVEL=0x20"]
    code = None
    import contextlib
    import io
    printed = io.StringIO()   # whatever the command line prints counts as part of its report too
    try:
        try:
            from a816 import cli
            with contextlib.redirect_stdout(printed), contextlib.redirect_stderr(printed):
                cli.cli_main()
            code = 0
        except SystemExit as e:
            code = e.code if e.code is not None else 0
        except BaseException as e:  # noqa: BLE001
            if isinstance(e, (KeyboardInterrupt, impl.Timeout)):
                raise
            records.append(str(e))
            code = 1
    finally:
        sys.argv = saved
        root.removeHandler(h)
        root.setLevel(old_level)
        logging.disable(logging.CRITICAL)
    out = _Out()
    if code == 0:
        return out, None
    return out, "\n".join(records + [printed.getvalue()])


def check_report(text, fname, line_no, line_text, col, viol, ctx, fault):
    """The report must name file:line, quote the line and (lexical errors) give the column."""
    m = re.search(re.escape(fname) + r":(\d+)(?::(-?\d+))?", text)
    if not m:
        viol.append({"key": f"location:no-file-line:{fault}", "msg": f"{ctx}: report does not name {fname}:<line>: {text!r}"})
        return "NO-LOCATION"
    got_line = int(m.group(1))
    if got_line != line_no:
        viol.append({"key": f"location:wrong-line:{fault}", "msg": f"{ctx}: reported line {got_line}, statement is on zero-based line {line_no}: {text!r}"})
        return "WRONG-LINE"
    if line_text.strip() not in text:
        viol.append({"key": f"location:line-not-quoted:{fault}", "msg": f"{ctx}: report does not quote {line_text!r}: {text!r}"})
        return "NOT-QUOTED"
    # the quoted line must be exactly that line (not a neighbour as well)
    if col is not None:
        if m.group(2) is None or int(m.group(2)) != col:
            viol.append({"key": f"location:wrong-column:{fault}", "msg": f"{ctx}: reported column {m.group(2)}, offending character is at column {col}: {text!r}"})
            return "WRONG-COLUMN"
    return "located"


def run_fault(name, fault, sit):
    base = all_bases("thorough" if name.startswith("gen-") else "quick")[name]
    lines, insertable = base[0], base[1]
    extra_files = base[2] if len(base) > 2 else {}
    stmt, col0 = FAULTS[fault][0], FAULTS[fault][1]
    off = FAULTS[fault][2] if len(FAULTS[fault]) > 2 else 0
    viol = []
    outcomes = set()
    evals = nt = 0
    example = None
    if fault == "text-without-table" and any(".table" in ln_ for ln_ in lines):
        return {"evals": 1, "nt_count": 0, "outcome": ["not-applicable-here"], "violations": []}  # the program loads a table: .text is valid
    for at in insertable:
        if fault == "unterminated-string-at-eof" and at != len(lines):
            continue
        indents = ["", "    ", "\t", "\t  \t"]
        if name == "plain":
            indents += ["/* " + "x" * n + " */ " for n in LONG_PREFIXES]
        for indent in indents:
            faulty = "\n".join((indent + ln_) if i_ == off else ln_ for i_, ln_ in enumerate(stmt.split("\n")))
            col = None if col0 is None else col0 + len(indent)
            new = lines[:at] + [faulty] + lines[at:]
            if fault == "unterminated-string-at-eof":
                text = "\n".join(new)  # no final newline
            else:
                text = "\n".join(new) + "\n"
            if sit == "main":
                src, files, fname, line_no = text, {}, "main.s", at + off
            elif sit == "included":
                src = "; main file\n\n.include 'inc/part.s'\n; after\n"
                files, fname, line_no = {"inc/part.s": text}, "inc/part.s", at + off
            elif sit == "included-nested":
                src = "; main file\n.include 'inc/outer.s'\n"
                files, fname, line_no = {"inc/outer.s": "; outer include\n\n/* c */\n.include 'inc/part.s'\n", "inc/part.s": text}, "inc/part.s", at + off
            elif sit == "included-renamed":
                # the same text was included a moment ago under ANOTHER file name (by another assembly of this process)
                report_of("; main file\n\n.include 'inc/first.s'\n; after\n", dict(COMMON_FILES, **dict(extra_files, **{"inc/first.s": text})))
                src = "; main file\n\n.include 'inc/second.s'\n; after\n"
                files, fname, line_no = {"inc/second.s": text}, "inc/second.s", at + off
            elif sit == "cli-define":
                src, files, fname, line_no = text, {}, "main.s", at + off
            else:
                src = "; main\n.include 'inc/ok.s'\n" + text
                files, fname, line_no = {"inc/ok.s": INC_VALID}, "main.s", at + 2 + off
            files = dict(COMMON_FILES, **dict(extra_files, **files))
            if sit == "cli-define":
                if indent not in ("", "    ") or at not in (0, 1, len(lines)):
                    continue
                out, rep = cli_report(src, files)
            else:
                out, rep = report_of(src, files)
            evals += 1
            if at > 0:
                nt += 1
            ctx = f"{name}/{sit}/line {at}/indent {len(indent)}"
            if len(src) > 5000:
                src = src[:200] + f"...({len(src)} characters)"
            if out.status == "timeout":
                viol.append({"key": f"location:hang:{fault}", "msg": ctx})
                continue
            if rep is None:
                viol.append({"key": f"location:error-not-reported:{fault}", "msg": f"{ctx}: program with `{stmt}` was accepted :: {src!r}"})
                outcomes.add("NOT-REPORTED")
                continue
            tag = check_report(rep, fname, line_no, faulty.split("\n")[off], col, viol, ctx, fault)
            outcomes.add(tag)
            if example is None and tag == "located" and at > 2:
                example = {"source": src, "files": files, "report": rep}
        if len(viol) > 12:
            break
    return {"evals": max(evals, 1), "nt_count": nt, "outcome": sorted(outcomes) or ["none"], "violations": viol[:12], "example": example}


def run_control(name):
    lines, _ = parse_base(BASE[name])
    out = impl.assemble("\n".join(lines) + "\n", rom="low_rom", filename="main.s")
    viol = []
    if not out.accepted:
        viol.append({"key": "location:base-program-rejected", "msg": f"{name}: {out.brief()}"})
    return {"evals": 1, "nt_count": 0, "outcome": "control-ok" if not viol else "CONTROL-REJECTED", "violations": viol}


def run_case(case):
    if case[0] == "control":
        return run_control(case[1])
    return run_fault(case[1], case[2], case[3])
