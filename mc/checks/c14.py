"""C14 - a failed assembly is never reported as success (fault enumeration)."""
from __future__ import annotations

import logging
import os
import subprocess
import sys

from mc import impl
from mc.checks import c12
from mc.gen import render

ID = "C14"
LEVEL = "fault_enumeration"
LEVEL_TEXT = ("Complete enumeration of valid generated program x every statement position (top level and inside blocks, named scopes, loop bodies, taken .if branches and bodies of applied macros; every top-level variant also with the whole program in an .include'd file) x 69 classes of definite error (plus source files that are not valid UTF-8) "
              "(bad character, bad size suffix, bad index register, unterminated string, unterminated comment, missing closing brace, "
              "stray token, undefined symbol in an operand / in data, undefined macro, too few macro arguments, addressing mode or "
              "width the mnemonic lacks, branch out of range, *= to an unmapped bank, missing .include/.incbin/.table/.include_ips "
              "file, .text without a table, a branch into another bank at the same in-bank offset, an undefined name in an assignment or macro argument nobody reads, *= / @= beyond 24 bits, ...) x 5 entry points (string API, Program.assemble, Program.assemble_as_patch, cli_main for "
              "ips and sfc), plus one real CLI process per (error class, format); the unmodified programs are the negative control. "
              "Five unit tests assert NodeError from the string API only.")
LEVEL_NOTE = ("Failure = non-None return, non-zero status, or any exception; success must not be announced in the log. Positions are "
              "top-level statement boundaries of 14 base programs. A hang is reported as a violation here as well (it is not a report).")
TECHNIQUE = "exhaustive fault injection: error class x statement position x entry point, status/exception oracle"
RULE = ("case = (base program, error class); it injects that error at every top-level position and runs every entry point. evaluations = "
        "(position, entry point) runs. Every faulty case is distinct by construction and non-trivial (it contains a definite error); "
        "the negative controls are counted separately.")
ASSUMPTIONS = ["each injected statement is an error whatever surrounds it", "rejected = non-None/non-zero return or any exception"]

FAULTS = {
    "bad-character": "lda.b 0x12 ?",
    "bad-size-suffix": "lda.q 0x12",
    "bad-index-register": "lda 0x12,z",
    "unterminated-string": ".ascii 'abc",
    "unterminated-comment": "/* never closed",
    "missing-closing-brace": "{",
    "stray-token": ")",
    "unbalanced-closing-brace": "}",
    "run-into-unmapped-bank": "*=0x6ffffe\n.dl 0x123456\n.db 1",
    "undefined-symbol-operand": "lda.w nosuchsymbol",
    "undefined-symbol-data": ".dw nosuchsymbol",
    "undefined-macro": "nosuchmacro(1)",
    "too-few-macro-arguments": "c14two(1)",
    "mode-the-mnemonic-lacks": "sta #0x12",
    "width-the-mode-lacks": "lda.l #0x123456",
    "branch-out-of-range": "bra c14anchor+0x1000",
    "branch-just-out-of-range": "c14here:\nbra c14here+0x92",
    "undefined-symbol-assign": "c14k := nosuchsymbol + 1",
    "undefined-symbol-loop-bound": ".for c14i := 0, nosuchsymbol {\n.db 1\n}",
    "undefined-symbol-ips-delta": ".include_ips 'nosuchfile.ips', nosuchsymbol",
    "org-unmapped-bank": "*=0x700000",
    "missing-include": ".include 'nosuchfile.s'",
    "missing-incbin": ".incbin 'nosuchfile.bin'",
    "missing-table": ".table 'nosuchfile.tbl'",
    "missing-include-ips": ".include_ips 'nosuchfile.ips', 0",
    "text-without-table": ".text 'abc'",
    # more syntax / evaluation error classes
    "division-operator": ".db 8 / 2",
    "unknown-keyword": ".bogus 1",
    "unterminated-macro-call": "c14two(1, 2",
    "for-missing-comma": ".for c14j := 0 3 {\n.db 1\n}",
    "if-without-block": ".if 1\n.db 1",
    "bad-hex-number": ".db 0xZZ",
    "undefined-qualified-name": ".dw c14nosuchscope.value",
    "macro-definition-without-name": ".macro (a) {\n}",
    "map-unknown-attribute": ".map identifier=9 bogus=1",
    "include-ips-missing-delta": ".include_ips 'blob.bin'",
    "label-only-colon": ":",
    "assignment-without-value": "c14x :=",
    "operand-missing": "lda #",
    "data-trailing-operator": ".db 1 +",
    "unbalanced-parenthesis": ".db (1 + 2",
    "malformed-ips-file": ".include_ips 'blob.bin', 0",
    "splice-undefined": "{{c14nosuchblock}}",
    "branch-to-ram": "bra 0x7e0000",
    "immediate-with-index": "lda #0x12,x",
    "indirect-long-with-x": "lda [0x12],x",
    # errors that stay invisible unless the failing value is really looked at
    "branch-to-same-offset-in-next-bank": "*=0x038000\nc14far1:\nbra c14far1+0x10002",
    "branch-half-a-bank-away": "*=0x048000\nc14far2:\nbra c14far2+0x8002",
    "undefined-symbol-in-unused-assignment": "c14u = nosuchsymbol + 1",
    "undefined-symbol-in-unused-macro-argument": "c14ignore(nosuchsymbol)",
    "org-beyond-24-bits": "*=0x1008000\n.db 1",
    "relocation-beyond-24-bits": "@=0x1008000\n.db 1",
    # operators the scanner knows but the evaluator does not: the condition cannot be evaluated (it is not "an undefined name")
    "if-with-unsupported-operator-eq": ".if 1 == 1 {\n.db 1\n}",
    "if-with-unsupported-operator-ne": ".if 2 != 1 {\n.db 1\n} .else {\n.db 2\n}",
    "if-with-unsupported-operator-gt": ".if 2 > 1 {\n.db 1\n}",
    "data-with-unsupported-operator": ".db 2 > 1",
    # blocks of directives that are never closed; an immediate too wide for the register without a size suffix
    "unclosed-if-block": ".if 1 {\n.db 1",
    "unclosed-else-block": ".if 0 {\n.db 1\n} else {\n.db 2",
    "unclosed-for-block": ".for c14q := 0, 2 {\n.db 1",
    "unclosed-macro-block": ".macro c14unclosed(a) {\n.db a",
    "unclosed-scope-block": ".scope c14sc {\n.db 1",
    "unsized-operand-wider-than-24-bits": "lda 0x1234567",
    "unsized-jump-wider-than-24-bits": "jmp 0x1008000",
    "unsized-immediate-wider-than-the-register": "lda #0x12345",
    "unsized-index-immediate-wider-than-the-register": "ldx #0x123456",
    # a file that an EARLIER assembly in this process read successfully and that was deleted since
    "deleted-incbin": ".incbin 'gone.bin'",
    "deleted-include": ".include 'gone.s'",
    "deleted-table": ".table 'gone.tbl'\n.text 'a'",
    "deleted-include-ips": ".include_ips 'gone.ips', 0",
}
GONE = {"gone.bin": b"\x01\x02\x03", "gone.s": ".db 0x41\n", "gone.tbl": "41=a\n", "gone.ips": b"PATCH" + bytes([0, 0x10, 0, 0, 1, 0x55]) + b"EOF"}
PRELUDE = [("macro", "c14two", ["p", "q"], [("data", "db", [("s", "p"), ("s", "q")])]),
           ("macro", "c14ignore", ["p"], [("data", "db", [("n", 1, "1")])])]
ENTRIES = ["string-api", "assemble", "assemble_as_patch", "cli-ips", "cli-sfc"]


class ListHandler(logging.Handler):
    def __init__(self):
        super().__init__()
        self.records = []

    def emit(self, record):
        try:
            self.records.append(record.getMessage())
        except Exception:  # noqa: BLE001
            self.records.append(str(record.msg))


_HANDLER = None


def setup(tier, seed):
    """Capture the repository's log lines (the property forbids announcing success)."""
    global _HANDLER
    logging.disable(logging.NOTSET)
    root = logging.getLogger()
    root.setLevel(logging.INFO)
    for h in list(root.handlers):
        root.removeHandler(h)
    _HANDLER = ListHandler()
    root.addHandler(_HANDLER)


def bound(tier):
    return "14 base programs x every top-level and nested position x 69 error classes x 5 in-process entry points; 69 x 2 real CLI processes; controls"


def base_programs():
    progs = c12.programs("low", ())
    out = {}
    for name, body in progs.items():
        # an anchor label right after the first *= (used by the out-of-range branch)
        b = list(body)
        idx = next(i for i, s in enumerate(b) if s[0] == "org") + 1
        b.insert(idx, ("label", "c14anchor"))
        out[name] = PRELUDE + b
    out["conditional"] = PRELUDE + [("const", "c14on", ("n", 1, "1")), ("org", ("n", 0x018000, "0x018000")), ("label", "c14anchor"),
                                    ("if", ("s", "c14on"), [("data", "db", [("n", 1, "1")]), ("block", [("data", "db", [("n", 2, "2")])])],
                                     [("data", "db", [("n", 3, "3")])]),
                                    ("for", "c14v", ("n", 0, "0"), ("n", 2, "2"), [("if", ("n", 1, "1"), [("data", "db", [("s", "c14v")])], None)])]
    out["tiny"] = PRELUDE + [("org", ("n", 0x018000, "0x018000")), ("label", "c14anchor"), ("data", "db", [("n", 1, "1")])]
    return out


def cases(tier, seed):
    for name in base_programs():
        yield ("control", name)
        for f in FAULTS:
            yield ("fault", name, f)
    for f in FAULTS:
        for fmt in ("ips", "sfc"):
            for name in (base_programs() if tier == "thorough" else ["simple"]):
                yield ("process", f, fmt, name)
    yield ("undecodable",)


def describe(case, res):
    d = {"case": list(case), "outcome": res.get("outcome")}
    if res.get("example"):
        d["example"] = res["example"]
    return d


def run_entry(entry, src_text, files):
    """Returns (failed: bool, announced_success: bool, detail)."""
    from a816.program import Program
    files = dict(files)
    files["prog.s"] = src_text
    impl.write_files(files)
    _HANDLER.records.clear()
    detail = ""
    failed = False
    import signal
    signal.setitimer(signal.ITIMER_REAL, 10)
    try:
        try:
            if entry == "string-api":
                p = Program()
                r = p.assemble_string_with_emitter(src_text, "prog.s", impl.RecWriter())
                failed = r is not None
                detail = f"returned {r!r}"[:120]
            elif entry == "assemble":
                r = Program().assemble("prog.s", "out.bin")
                failed = r != 0
                detail = f"returned {r!r}"
            elif entry == "assemble_as_patch":
                r = Program().assemble_as_patch("prog.s", "out.bin")
                failed = r != 0
                detail = f"returned {r!r}"
            else:
                from a816 import cli
                saved = sys.argv
                sys.argv = ["x816", "prog.s", "-o", "out.bin", "-f", entry[4:]]
                try:
                    try:
                        cli.cli_main()
                        code = 0
                    except SystemExit as e:
                        code = e.code if e.code is not None else 0
                finally:
                    sys.argv = saved
                failed = code != 0
                detail = f"exit status {code!r}"
        finally:
            signal.setitimer(signal.ITIMER_REAL, 0)
    except impl.Timeout:
        return None, False, "did not terminate within 10 s"
    except BaseException as e:  # noqa: BLE001
        if isinstance(e, (KeyboardInterrupt,)):
            raise
        failed = True
        detail = f"raised {type(e).__name__}"
    announced = any("success" in m.lower() for m in _HANDLER.records)
    return failed, announced, detail


def inject(prog, pos, text):
    """Insert the faulty statement before top-level statement #pos (after the prelude)."""
    npre = len(PRELUDE)
    return prog[:npre + pos] + [("raw", text)] + prog[npre + pos:]


BODY_INDEX = {"block": 1, "scope": 2, "macro": 3, "for": 4, "if": 2}  # "if": the then-branch (base programs only use true conditions)


def nested_positions(prog):
    """Paths to every statement-list position inside blocks, named scopes, loop bodies and the bodies of macros that
    are applied somewhere in the program (an error inside a macro that is never applied is not a definite error)."""
    called = set()

    def calls(stmts):
        for st in stmts:
            if st[0] == "call":
                called.add(st[1])
            if st[0] in BODY_INDEX:
                calls(st[BODY_INDEX[st[0]]])
    calls(prog)
    paths = []

    def walk(stmts, prefix):
        for i, st in enumerate(stmts):
            if st[0] in BODY_INDEX and not (st[0] == "macro" and st[1] not in called):
                body = st[BODY_INDEX[st[0]]]
                for k in range(len(body) + 1):
                    paths.append(prefix + [(i, k)])
                walk(body, prefix + [(i, None)])
    walk(prog, [])
    return paths


def inject_nested(prog, path, text):
    def rec(stmts, path):
        (i, k), rest = path[0], path[1:]
        st = list(stmts[i])
        bi = BODY_INDEX[st[0]]
        body = list(st[bi])
        if not rest:
            body.insert(k, ("raw", text))
        else:
            body = rec(body, [(rest[0][0], rest[0][1])] + rest[1:])
        st[bi] = body
        return stmts[:i] + [tuple(st)] + stmts[i + 1:]
    # a path is [(i, None), (j, None), ..., (m, k)]: descend by statement index, insert at k in the last body
    return rec(list(prog), path)


def run_fault(name, fault):
    prog = base_programs()[name]
    if fault in ("undefined-macro", "too-few-macro-arguments"):
        # an earlier, unrelated assembly in this process that DEFINES that macro name must not make the error go away
        impl.assemble(".macro nosuchmacro(a) {\n.db a\n}\n.macro c14two(p) {\n.db p\n}\n*=0x018000\nnosuchmacro(1)\nc14two(2)\n", rom="low_rom")
    if fault.startswith("deleted-"):
        impl.write_files(GONE)
        first = impl.assemble("*=0x018000\n" + FAULTS[fault] + "\n.db 1\n", rom="low_rom")
        for f_ in GONE:
            if os.path.exists(f_):
                os.remove(f_)
        if not first.accepted:
            return {"evals": 1, "nt_count": 0, "outcome": "HARNESS", "violations": [
                {"key": "status:harness-program-not-valid", "msg": f"{fault}: the preparing assembly failed: {first.brief()}"}]}
    files = dict(c12.FILES)
    files.update(render.files_of(prog))
    n_top = len(prog) - len(PRELUDE)
    viol = []
    outcomes = set()
    evals = 0
    example = None
    variants = []
    for pos in range(n_top + 1):
        if fault == "branch-out-of-range" and pos < 2:
            continue  # needs the anchor label (and a position) before it
        if fault.startswith("unclosed-") and pos != n_top:
            continue  # an unclosed block swallows what follows: the definite error is the one at the end of the source
        variants.append((pos, inject(prog, pos, FAULTS[fault])))
    for path in nested_positions(prog):
        if fault == "missing-closing-brace" or fault.startswith("unclosed-"):
            continue  # an unbalanced brace inside a body is still an error, but which construct it breaks is layout-dependent
        variants.append(("nested:" + "/".join(f"{i}.{k}" for i, k in path), inject_nested(prog, path, FAULTS[fault])))
    # the same faulty programs reached through .include: the whole program sits in an included file
    variants += [(f"included:{pos}", ("INCLUDED", fp)) for pos, fp in list(variants) if not str(pos).startswith("nested:")]
    for pos, faulty_prog in variants:
        if isinstance(faulty_prog, tuple) and faulty_prog and faulty_prog[0] == "INCLUDED":
            files = dict(files, **{"c14part.s": render.source(faulty_prog[1])})
            src = "; main file: everything is in the included file\n.include 'c14part.s'\n"
        else:
            src = render.source(faulty_prog)
        for entry in ENTRIES:
            failed, announced, detail = run_entry(entry, src, files)
            evals += 1
            if failed is None:
                viol.append({"key": f"status:hang:{fault}", "msg": f"{entry}: {detail} :: {src!r}"})
                outcomes.add("HANG")
                break
            if not failed:
                viol.append({"key": f"status:failure-reported-as-success:{entry}:{fault}",
                             "msg": f"{entry} reported success ({detail}) for a program with `{FAULTS[fault]}` at position {pos} :: {src!r}"})
                outcomes.add("REPORTED-SUCCESS")
            elif announced and entry != "string-api":
                viol.append({"key": f"status:success-announced-on-failure:{entry}:{fault}",
                             "msg": f"{entry} failed ({detail}) but logged a success message :: {src!r}"})
                outcomes.add("ANNOUNCED-SUCCESS")
            else:
                outcomes.add("failure-reported")
                if example is None and entry == "cli-ips":
                    example = {"fault": FAULTS[fault], "position": pos, "entry": entry, "result": detail}
        if len(viol) > 10:
            break
    return {"evals": max(evals, 1), "nt_count": evals, "outcome": sorted(outcomes), "violations": viol[:10], "example": example}


def run_control(name):
    prog = base_programs()[name]
    files = dict(c12.FILES)
    files.update(render.files_of(prog))
    src = render.source(prog)
    viol = []
    evals = 0
    for entry in ENTRIES:
        failed, announced, detail = run_entry(entry, src, files)
        evals += 1
        if failed or failed is None:
            viol.append({"key": f"status:valid-program-reported-as-failure:{entry}", "msg": f"{entry}: {detail} :: {src!r}"})
    return {"evals": evals, "nt_count": 0, "outcome": "control-ok" if not viol else "CONTROL-FAILED", "violations": viol}


def run_process(fault, fmt, name="simple"):
    prog = base_programs()[name]
    src = render.source(inject(prog, 2, FAULTS[fault]))
    files = dict(c12.FILES)
    files.update(render.files_of(prog))
    files["prog.s"] = src
    impl.write_files(files)
    env = dict(os.environ, PYTHONPATH=impl.REPO, PYTHONDONTWRITEBYTECODE="1")
    viol = []
    try:
        pr = subprocess.run([sys.executable, "-m", "a816.cli", "prog.s", "-o", "out.bin", "-f", fmt], env=env, capture_output=True, timeout=60)
        text = (pr.stdout + pr.stderr).decode("utf-8", "replace")
        if pr.returncode == 0:
            viol.append({"key": f"status:failure-reported-as-success:process-{fmt}:{fault}",
                         "msg": f"`python -m a816.cli -f {fmt}` exit status 0 for a program with `{FAULTS[fault]}`"})
        elif "success" in text.lower():
            viol.append({"key": f"status:success-announced-on-failure:process-{fmt}:{fault}", "msg": f"exit {pr.returncode} but output says success"})
        oc = f"process-exit-{'0' if pr.returncode == 0 else 'nonzero'}"
    except subprocess.TimeoutExpired:
        viol.append({"key": f"status:hang:{fault}", "msg": f"CLI process did not terminate within 60 s for `{FAULTS[fault]}`"})
        oc = "process-HANG"
    return {"evals": 1, "nt_count": 1, "outcome": oc, "violations": viol}


BAD_BYTES = [b"*=0x018000\nlda.b #0x1\xe92\nrts\n", b"*=0x018000\nr\xfftl\n", b"*=0x018000\n.db 1\n\x80\x81\x82 \xfe\xff\n.db 2\n",
             b"\xff\xfe*\x00=\x000\x00", b"*=0x018000\n.ascii 'caf\xe9'\n"]


def run_undecodable():
    """Source files that are not valid UTF-8 (main file and included file) through the entry points that read files."""
    viol = []
    evals = 0
    for k, data in enumerate(BAD_BYTES):
        for where in ("main", "included"):
            for entry in ("assemble", "assemble_as_patch", "cli-ips", "cli-sfc"):
                if where == "main":
                    failed, announced, detail = run_entry(entry, data, {})
                else:
                    failed, announced, detail = run_entry(entry, "*=0x018000\n.db 1\n.include 'bad.s'\n", {"bad.s": data})
                evals += 1
                if failed is None:
                    viol.append({"key": "status:hang:undecodable-source-file", "msg": f"{entry} {where} #{k}: {detail}"})
                elif not failed:
                    viol.append({"key": f"status:failure-reported-as-success:{entry}:undecodable-source-file",
                                 "msg": f"{entry} reported success ({detail}) for a {where} file that is not valid UTF-8: {data!r}"})
                elif announced:
                    viol.append({"key": f"status:success-announced-on-failure:{entry}:undecodable-source-file", "msg": f"{entry} {where} #{k}"})
    return {"evals": evals, "nt_count": evals, "outcome": "undecodable-rejected" if not viol else "UNDECODABLE-ACCEPTED", "violations": viol[:10]}


def run_case(case):
    if case[0] == "undecodable":
        return run_undecodable()
    if case[0] == "fault":
        return run_fault(case[1], case[2])
    if case[0] == "control":
        return run_control(case[1])
    return run_process(*case[1:])
