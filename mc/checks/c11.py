"""C11 - IPS output is well formed and patches exactly the written blocks (write-history exploration)."""
from __future__ import annotations

import io

from mc.ref import ips

ID = "C11"
LEVEL = "model_checking"
LEVEL_TEXT = ("Explicit enumeration of all write histories up to depth 2 (and depth 3 over a reduced alphabet) over an "
              "alphabet of (address, length) events built from every format boundary (lengths 0,1,2 and around each multiple of "
              "65535; addresses 0, bank edges, the 2^24 limit, negative, and every address that puts the first, second or third "
              "record at offset 0x454F46 'EOF'), with and without the copier header, with pseudo-random contents and with 8 special contents (all zeros / FF / one value, 00-FF mixes, a run at the start, end or middle of other data), executed on the real IPSWriter over BytesIO; "
              "the produced file is read by an independent strict IPS reader and its effect compared with the writes. "
              "The two unit tests write one small and one 65536-byte block.")
LEVEL_NOTE = ("Trusted: mc/ref/ips.py (strict reader). The writer keeps no state between writes except the file, so depth 2 shows "
              "every interaction (order, adjacency, overlap). A block IPS cannot represent must raise; a first record at 0x454F46 "
              "may raise (refused) or be encoded differently, but must never be written as-is.")
TECHNIQUE = "explicit-state enumeration of write histories on the real writer, output decided by an independent IPS reader"
RULE = ("state = write history (sequence of (address, length) events, contents position-dependent; a repeated (address, length) is run both with new and with identical bytes); transition = one write_block "
        "call. Every history up to the depth bound is executed. non-trivial = history contains a split block (>65535), an empty "
        "block, adjacent/overlapping blocks, or a record at a format limit (>= 0xFF0000, negative, or 0x454F46).")
ASSUMPTIONS = ["strict IPS reader mc/ref/ips.py", "image comparison applies writes in order, later wins"]

M = 0xFFFF
E = ips.EOF_OFFSET
LENGTHS = [0, 1, 2, M - 1, M, M + 1, M + 2, 2 * M - 1, 2 * M, 2 * M + 1, 3 * M + 1]
# (the last four: blocks of exactly 1, 2 or 3 maximal records that END on the last representable byte)
ADDRS = [0, 1, 0x8000, 0xFFFF, 0xFFFDFF, 0xFFFE00, 0xFFFFFF, 0x1000000, -1, E, E - 0x200, E - M, E - M - 0x200, E - 2 * M,
         E - 2 * M - 0x200, 0x1000000 - M, 0x1000000 - 2 * M, 0x1000000 - 3 * M, 0x1000000 - 2 * M - 0x200]
LENGTHS_T = [0, 1, M, M + 1, 2 * M + 1]
ADDRS_T = [0, 0xFFFF, 0xFFFE00, 0xFFFFFF, -1, E - 0x200, E - M, 1]
_BASE = None


def base():
    global _BASE
    if _BASE is None:
        n = 3 * M + 1 + 4096
        _BASE = bytes(((i * 31) ^ (i >> 8) * 7 ^ (i >> 16) * 101) & 0xFF for i in range(n))
    return _BASE


def bound(tier):
    a3, l3 = (len(ADDRS), len(LENGTHS)) if tier == "thorough" else (len(ADDRS_T), len(LENGTHS_T))
    return (f"all histories of depth <=2 over {len(ADDRS)}x{len(LENGTHS)} events and of depth 3 over {a3}x{l3} events, "
            "x copier header on/off; 8 special block contents (uniform runs, 00/FF mixes, runs inside other data) x all depth-1 histories over 19x14 events and depth-2 over 8x4 events")


def events(addrs, lengths):
    return [(a, ln) for a in addrs for ln in lengths]


def cases(tier, seed):
    ev = events(ADDRS, LENGTHS)
    for header in (False, True):
        yield ("d1", header)
        for i in range(len(ev)):
            yield ("d2", header, i)
    # block CONTENTS a writer may treat specially (uniform runs, 00/FF mixes, runs inside other data)
    for header in (False, True):
        for ck in CONTENTS:
            yield ("content", header, ck)
    ev3 = events(ADDRS, LENGTHS) if tier == "thorough" else events(ADDRS_T, LENGTHS_T)
    for header in (False, True):
        for i in range(len(ev3)):
            for j in range(len(ev3)):
                yield ("d3", header, i, j, tier)


def describe(case, res):
    d = {"case": list(case), "outcome": res.get("outcome")}
    if res.get("example"):
        d["example"] = res["example"]
    return d


def classify(s0, ln):
    """('ok'|'may'|'must') for a block whose first record would start at s0 (header offset included)."""
    if ln == 0:
        # an empty block changes nothing; refusing it at an unrepresentable address is acceptable too
        return "ok" if 0 <= s0 <= 0xFFFFFF else "may"
    if s0 < 0 or s0 > 0xFFFFFF or s0 + ln - M > 0xFFFFFF:
        return "must"
    k = 0
    while k < ln:
        if s0 + k > 0xFFFFFF:
            return "may"  # natural 65535-tiling is out of range although another tiling exists
        k += M
    if s0 == E:
        return "may"
    return "ok"


CONTENTS = ["zeros", "ff", "mix00ff", "u7e", "zeros-then-one", "one-then-zeros", "run-in-middle", "two-runs"]
LENGTHS_C = [0, 1, 2, 3, 8, 9, 10, 16, 300, M - 1, M, M + 1, M + 9, 2 * M + 1]
LENGTHS_C2 = [1, 9, M, M + 9]


def content(kind, ln, salt):
    if kind == "prng":
        return base()[salt * 1021:salt * 1021 + ln]
    if kind == "zeros":
        return bytes(ln)
    if kind == "ff":
        return b"\xff" * ln
    if kind == "mix00ff":
        return (b"\x00\xff\xff" * (ln // 3 + 1))[:ln]
    if kind == "u7e":
        return bytes([0x7E + salt]) * ln
    if kind == "zeros-then-one":
        return bytes(ln - 1) + b"\x01" if ln else b""
    if kind == "one-then-zeros":
        return b"\x01" + bytes(ln - 1) if ln else b""
    if kind == "run-in-middle":
        d = bytearray(base()[salt * 1021:salt * 1021 + ln])
        d[ln // 3:ln // 3 + 40] = bytes(len(d[ln // 3:ln // 3 + 40]))
        return bytes(d)
    if kind == "two-runs":
        return (bytes(ln // 2) + b"\xff" * ln)[:ln]
    raise ValueError(kind)


def run_history(hist, header, viol, identical_repeats=False, kind="prng", abandon=False):
    """hist: list of (addr, length). Returns (nontrivial, outcome tag).
    identical_repeats: a write whose (address, length) equals an earlier write's carries the SAME bytes as that one."""
    from a816.writers import IPSWriter
    f = io.BytesIO()
    w = IPSWriter(f, header)
    w.begin()
    hdr = 0x200 if header else 0
    expected = []
    attempted = []
    raised = False
    pending_must = None
    b = base()
    for i, (addr, ln) in enumerate(hist):
        salt = i
        if identical_repeats:
            salt = next(j for j in range(i + 1) if hist[j] == (addr, ln))
        data = b[salt * 1021:salt * 1021 + ln] if kind == "prng" else content(kind, ln, salt)
        cls = classify(addr + hdr, ln)
        attempted.append((addr + hdr, data))
        try:
            w.write_block(data, addr)
        except Exception as e:  # noqa: BLE001
            raised = True
            if cls == "ok":
                viol.append({"key": "ips:representable-write-refused",
                             "msg": f"write #{i} ({addr:#x}, len {ln}, header={header}) raised {e!r} in history {hist}"})
                return 1, "REFUSED"
            break
        else:
            if cls == "must":
                pending_must = (i, addr, ln)  # acceptable only if the writer still refuses it in end()
            expected.append((addr + hdr, data))
    if raised and abandon:
        # the caller gave up after the refusal (as the file front end does when an exception escapes): no end()
        return 1, "refused-and-abandoned"
    try:
        w.end()
    except Exception as e:  # noqa: BLE001
        worst = max((classify(a + hdr, ln) for a, ln in hist), key=["ok", "may", "must"].index, default="ok")
        if worst == "ok":
            viol.append({"key": "ips:representable-write-refused", "msg": f"end() raised {e!r} for history {hist} header={header}"})
            return 1, "REFUSED"
        return 1, "refused-as-required"
    if pending_must is not None:
        i, addr, ln = pending_must
        viol.append({"key": "ips:unrepresentable-address-accepted",
                     "msg": f"write #{i} ({addr:#x}, len {ln}, header={header}) cannot be represented by IPS but was never refused; history {hist}"})
        return 1, "UNREPRESENTABLE-ACCEPTED"
    out = f.getvalue()
    desc = f"history {[(hex(a), ln) for a, ln in hist]} header={header}"
    try:
        recs = ips.parse(out)
    except ips.IpsError as e:
        # diagnose the EOF collision precisely
        try:
            loose = _walk_records(out)
        except Exception:  # noqa: BLE001
            loose = []
        if any(o == E for o, _ in loose):
            viol.append({"key": "ips:record-at-EOF-offset",
                         "msg": f"a record starts at offset 0x454F46; a standard reader takes it for the EOF marker ({e}); {desc}"})
            return 1, "EOF-COLLISION"
        viol.append({"key": "ips:malformed-output", "msg": f"strict reader: {e}; {desc}"})
        return 1, "MALFORMED"
    for off, payload, kind in recs:
        if kind == "plain" and not (1 <= len(payload) <= M):
            viol.append({"key": "ips:bad-record-length", "msg": f"record at {off:#x} has length {len(payload)}; {desc}"})
            return 1, "BAD-RECORD"
    rec_writes = [(o, p) for o, p, _ in recs]
    if raised:
        # what was written before the refusal must be correct slices of the attempted blocks
        for o, p in rec_writes:
            if not any(a <= o and o + len(p) <= a + len(d) and d[o - a:o - a + len(p)] == p for a, d in attempted):
                viol.append({"key": "ips:garbage-before-refusal", "msg": f"record at {o:#x} len {len(p)} matches no attempted block; {desc}"})
                return 1, "GARBAGE"
        return 1, "refused-as-required"
    diff = ips.same_image(expected, rec_writes)
    if diff is not None:
        viol.append({"key": "ips:wrong-image", "msg": f"patch effect differs from the writes: {diff}; {desc}"})
        return 1, "WRONG-IMAGE"
    if sum(len(p) for _, p in rec_writes) != sum(len(d) for _, d in expected):
        viol.append({"key": "ips:not-covered-exactly-once", "msg": f"records carry {sum(len(p) for _, p in rec_writes)} bytes for "
                     f"{sum(len(d) for _, d in expected)} written; {desc}"})
        return 1, "NOT-ONCE"
    nontrivial = 0
    spans = sorted((a, a + len(d)) for a, d in expected if d)
    if any(ln > M or ln == 0 for _, ln in hist):
        nontrivial = 1
    if any(x[1] >= y[0] for x, y in zip(spans, spans[1:])):
        nontrivial = 1
    if any(a >= 0xFF0000 or a < 0 or a == E for a, _ in expected):
        nontrivial = 1
    return nontrivial, f"ok-{len(recs)}rec" if len(recs) < 4 else "ok-many-rec"


def _walk_records(out):
    """Walk the file the way the writer laid it out (ignoring the EOF ambiguity) - diagnostics only."""
    p = 5
    recs = []
    while p + 5 <= len(out) - 3:
        off = int.from_bytes(out[p:p + 3], "big")
        ln = int.from_bytes(out[p + 3:p + 5], "big")
        recs.append((off, ln))
        p += 5 + ln
    return recs


def run_case(case):
    kind, header = case[0], case[1]
    viol = []
    n = nt = 0
    outcomes = set()
    states = 0
    example = None
    ckind = "prng"
    if kind == "content":
        ckind = case[2]
        ev2 = events(ADDRS_T, LENGTHS_C2)
        hists = [[e] for e in events(ADDRS, LENGTHS_C)] + [[a, b2] for a in ev2 for b2 in ev2]
    elif kind == "d1":
        hists = [[e] for e in events(ADDRS, LENGTHS)] + [[]]
    elif kind == "d2":
        ev = events(ADDRS, LENGTHS)
        hists = [[ev[case[2]], e] for e in ev]
    else:
        ev = events(ADDRS, LENGTHS) if case[4] == "thorough" else events(ADDRS_T, LENGTHS_T)
        hists = [[ev[case[2]], ev[case[3]], e] for e in ev]
    runs = []
    for h in hists:
        runs.append((h, False))
        if len(set(h)) < len(h) and any(ln for _, ln in h):
            runs.append((h, True))  # same history, the repeated write restores exactly the earlier bytes
    for h, ident in runs:
        if any(classify(a + (0x200 if header else 0), ln) != "ok" for a, ln in h):
            # a history with a refusal is run a first time WITHOUT the final end(), then again normally: nothing of the abandoned
            # writer may show up in the next writer's file
            run_history(h, header, [], identical_repeats=ident, kind=ckind, abandon=True)
        t, tag = run_history(h, header, viol, identical_repeats=ident, kind=ckind)
        n += 1
        nt += t
        states += 1
        outcomes.add(tag)
        if example is None and tag.startswith("ok") and t:
            example = {"history": [(hex(a), ln) for a, ln in h], "header": header, "result": tag}
        if len(viol) > 30:
            break
    return {"evals": n, "nt_count": nt, "state_count": states, "transitions": sum(len(h) for h in hists),
            "outcome": sorted(outcomes), "violations": viol[:30], "example": example, "depth": len(hists[-1])}
