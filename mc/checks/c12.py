"""C12 - file and command-line front ends agree with the in-memory assembler (full option lattice)."""
from __future__ import annotations

import io
import os
import re
import subprocess
import sys

from mc import impl
from mc.gen import render
from mc.ref import asm as refasm
from mc.ref import bus as refbus
from mc.ref import expr as rx
from mc.ref import ips

ID = "C12"
LEVEL = "exploration"
LEVEL_TEXT = ("Complete enumeration of the option lattice format {ips,sfc} x mapping {low,low2,high,not given} x copier header {off,on} x "
              "defines {none, one, two (the second in terms of the first), two with value zero, a dotted name, a value written with |} (96 points) x every generated program valid at that point (position moves into "
              "several banks and mirrors, @= relocation, labels in blocks/scopes/macros/loops, defines used in data, .if and .for "
              "bounds, overlapping and bank-crossing blocks, a 65552-byte block that IPS must split, blocks of one repeated byte, .include/.incbin), each output path alternately absent and holding a longer stale file, through Program.assemble, Program.assemble_as_patch, "
              "cli_main in-process and, for every lattice point, a real `python -m a816.cli` process. Output files are read back "
              "(strict IPS reader / raw SFC bytes) and compared with the in-memory API's blocks under the same ROM type and with the "
              "defines prepended as constants; the symbol file is compared with get_all_labels(). No unit test calls these entry points.")
LEVEL_NOTE = ("Differential: the reference is the in-memory API itself, anchored by mc/ref/asm.py so that a mapping the in-memory API cannot "
              "handle is not silently skipped. `-f sfc --copier-header` is unspecified (either unshifted or shifted by 0x200 accepted).")
TECHNIQUE = "exhaustive enumeration of the option lattice x programs x entry points; differential against the in-memory API"
RULE = ("case = (lattice point, entry point); evaluations = (program, entry point) runs whose output file is read back. non-trivial = "
        "lattice point differs from the default (ips, low, no header, no defines) in at least one option; cases are distinct.")
ASSUMPTIONS = ["in-memory API + mc/ref/asm.py", "strict IPS reader mc/ref/ips.py", "SFC image = writes applied in order to zeros"]

N = rx.num
S = rx.sym
DIRECT = ("", "", "")
FORMATS = ["ips", "sfc"]
MAPPINGS = ["low", "low2", "high", None]
HEADERS = [False, True]
# the last configuration defines BAR in terms of FOO (defines are installed in command-line order)
# the fifth one uses a dotted name (the form a named scope exports), a legal symbol name
DEFINES = [(), (("FOO", "5"),), (("FOO", "5"), ("BAR", "FOO-2")), (("FOO", "0"), ("BAR", "4-4")), (("cfg.depth", "3"), ("FOO", "2")),
           (("FLAGS", "0x01|0x80"), ("FOO", "FLAGS&0x0f"))]


def define_values(defines):
    env = {}
    for k, v in defines:
        env[k] = eval(v, {"__builtins__": {}}, dict(env))  # noqa: S307 - my own literals / earlier names only
    return env
ROM = {"low": "low_rom", "low2": "low_rom_2", "high": "high_rom", None: "low_rom"}
BASE = {  # bank a, bank b, mirror of a, ram
    "low": dict(a=0x018000, b=0x028000, m=0x818000, end=0x01FFFE, ram=0x7E2000),
    "low2": dict(a=0x818000, b=0x828000, m=0x018000, end=0x81FFFE, ram=0x7E2000),
    "high": dict(a=0x410000, b=0x420000, m=0xC10000, end=0x41FFFE, ram=0x7E2000),
}
BASE[None] = BASE["low"]


def bound(tier):
    return ("96 lattice points (odd ones additionally with --verbose --dump-symbols and an output path in a subdirectory) x 7-9 programs x 3 in-process entry points; output paths alternately fresh and holding a longer stale file; 96 lattice points x " + ("all" if tier == "thorough" else "2") +
            " programs as real CLI processes")


def programs(mapping, defines):
    b = BASE[mapping]
    macro = ("macro", "mk", ["v"], [("label", "ml"), ("data", "db", [S("v")]), ("data", "dw", [S("ml")])])
    out = {
        "simple": [("org", N(b["a"])), ("label", "start"), ("ins", "lda", "w", ("#", "", ""), N(0x1234)), ("ins", "sta", "l", DIRECT, N(0x7E0010)),
                   ("data", "dl", [S("start")]), ("ins", "rts", "", None, None)],
        "moves": [("org", N(b["a"])), ("label", "one"), ("data", "db", [N(1), N(2), N(3)]), ("org", N(b["b"] + 0x100)), ("label", "two"),
                  ("data", "dl", [S("one"), S("two")]), ("org", N(b["m"] + 0x40)), ("label", "mir"), ("data", "dl", [S("mir")]),
                  ("reloc", N(b["ram"])), ("label", "inram"), ("data", "pointer", [S("inram")]), ("data", "db", [N(9)])],
        "scopes": [macro, ("org", N(b["a"])), ("label", "top"), ("block", [("label", "inblock"), ("data", "dw", [S("inblock")])]),
                   ("scope", "ns", [("label", "inscope"), ("data", "db", [N(7)])]), ("data", "dl", [S("ns.inscope")]),
                   ("call", "mk", [N(0x21)]), ("call", "mk", [N(0x22)]),
                   ("for", "ii", N(0), N(3), [("label", "inloop"), ("data", "db", [S("ii")])]), ("label", "last"), ("data", "dl", [S("last")])],
        "overlap": [("org", N(b["a"])), ("data", "db", [N(1), N(2), N(3), N(4)]), ("org", N(b["a"] + 2)), ("data", "db", [N(0xAA), N(0xBB), N(0xCC)]),
                    ("org", N(b["a"] + 5)), ("data", "db", [N(0xDD)]),
                    # a later block at a LOWER address that overlaps earlier ones: write order decides, not address order
                    ("org", N(b["a"] + 0x44)), ("data", "db", [N(0x61), N(0x62), N(0x63), N(0x64)]),
                    ("org", N(b["a"] + 0x40)), ("data", "db", [N(0x71), N(0x72), N(0x73), N(0x74), N(0x75), N(0x76)]), ("org", N(b["end"])), ("label", "x"), ("data", "dl", [S("x")]), ("data", "dw", [N(0x5566)])],
        # labels and bytes before the first *= (position 0 of the initial mapping): front ends must still agree with the in-memory API
        "no-org-first": [("label", "early"), ("data", "db", [N(0x21), N(0x22)]), ("data", "dl", [S("early")]), ("org", N(b["a"])), ("label", "late"),
                         ("data", "dl", [S("early"), S("late")])],
        # blocks written high, then lower, then beyond everything so far (SFC: seek order); a literal TAB inside a string
        "order-and-tab": [("org", N(b["a"] + 0x300)), ("data", "db", [N(0x31), N(0x32)]), ("org", N(b["a"] + 0x100)), ("data", "db", [N(0x21)]),
                          ("org", N(b["a"] + 0x500)), ("ascii", "tab\there"), ("label", "aftertab"), ("data", "dl", [S("aftertab")])],
        "bigblob": [("org", N(b["a"])), ("label", "big"), ("incbin", "big.bin"), ("label", "afterbig"), ("data", "dl", [S("afterbig")])],
        "files": [("org", N(b["a"] + 0x10)), ("include", "inc.s", [("label", "fromfile"), ("data", "dw", [S("fromfile")])]), ("incbin", "blob.bin"),
                  ("data", "dl", [S("blob_bin"), S("blob_bin__size")])],
    }
    # blocks of one repeated byte (a writer may want to run-length encode them)
    out["uniform"] = [("org", N(b["a"]))] + [("ins", "nop", "", None, None)] * 12 + [("org", N(b["a"] + 0x100)), ("data", "db", [N(0)] * 16),
                      ("org", N(b["a"] + 0x200)), ("data", "db", [N(0xFF)] * 20), ("data", "db", [N(0)] * 20), ("org", N(b["b"])), ("data", "dw", [N(0x7E7E)] * 9)]
    # an all-zero block written OVER bytes that an earlier block put there (a writer that skips zero blocks would keep them)
    out["zero-over"] = [("org", N(b["a"])), ("data", "db", [N(0x11), N(0x12), N(0x13), N(0x14), N(0x15), N(0x16)]), ("org", N(b["a"] + 2)),
                        ("data", "db", [N(0), N(0)]), ("org", N(b["a"] + 0x20)), ("data", "dw", [N(0)])]
    # names that the root scope and inner scopes / loop iterations both define, used at root level before and after them:
    # printing the symbol table (--dump-symbols) must not change what they mean
    out["same-names"] = [("eq", "kk", N(0x55)), ("org", N(b["a"])), ("label", "loop"), ("ins", "dex", "", None, None), ("bra", "bne", S("loop")),
                         ("data", "db", [S("kk")]),
                         ("for", "kk", N(0), N(2), [("label", "inl"), ("data", "db", [S("kk")])]),
                         ("block", [("label", "loop"), ("ins", "nop", "", None, None), ("bra", "bne", S("loop")), ("eq", "kk", N(0x66)), ("data", "db", [S("kk")])]),
                         ("data", "db", [S("kk")]), ("bra", "bne", S("loop")), ("data", "dl", [S("loop")])]
    # an included IPS patch with a run-length record: its records take the copier-header shift like every other block
    out["ips-include"] = [("org", N(b["a"])), ("data", "db", [N(1), N(2)]), ("incips", "c12p.ips", N(0x10)), ("data", "db", [N(3)])]
    names = {d[0] for d in defines}
    if "cfg.depth" in names:
        out["use-dotted"] = [("org", N(b["a"])), ("data", "dw", [S("cfg.depth")]), ("if", S("cfg.depth"), [("data", "db", [N(0x11)])], None),
                             ("for", "ii", N(0), S("cfg.depth"), [("data", "db", [("b", "+", S("ii"), S("FOO"))])])]
    if "FLAGS" in names:
        out["use-flags"] = [("org", N(b["a"])), ("data", "dw", [S("FLAGS")]), ("data", "db", [S("FOO")])]
    if "FOO" in names:
        out["use-foo"] = [("org", N(b["a"])), ("data", "dw", [S("FOO")]), ("if", S("FOO"), [("data", "db", [N(0x11)])], [("data", "db", [N(0x22)])]),
                          ("data", "dl", [("b", "+", S("FOO"), N(0x100))])]
    if "BAR" in names:
        out["use-bar"] = [("org", N(b["a"])), ("for", "ii", N(0), S("BAR"), [("data", "db", [("b", "+", S("ii"), S("FOO"))])]),
                          ("data", "dw", [("b", "*", S("BAR"), S("FOO"))])]
    return out


DIFFERENTIAL_ONLY = {"ips-include"}   # compared between front ends and the in-memory API only (the reference lists patch records apart)
FILES = {"c12p.ips": ips.build([(0x2000, b"\x51\x52\x53", "plain"), (0x2100, (12, 0x7E), "rle"), (0x3000, b"\x54", "plain")]), "blob.bin": bytes(range(0x30, 0x3B)), "big.bin": bytes(((i * 37) ^ (i >> 7)) & 0xFF for i in range(0x10010))}


def lattice():
    return [(f, m, h, d) for f in FORMATS for m in MAPPINGS for h in HEADERS for d in DEFINES]


def cases(tier, seed):
    for i in range(len(lattice())):
        yield ("inproc", i)
    for i in range(len(lattice())):
        yield ("subproc", i, (i + seed) % 5, tier)


def describe(case, res):
    f, m, h, d = lattice()[case[1]]
    return {"case": list(case), "format": f, "mapping": m, "copier_header": h, "defines": [f"{k}={v}" for k, v in d], "outcome": res.get("outcome"),
            "example": res.get("example")}


STALE = bytes([0xA5]) * 0x48000


def prepare_output(path, stale):
    """The output path either does not exist or holds a longer, unrelated file from an earlier build."""
    if os.path.exists(path):
        os.remove(path)
    if stale:
        with open(path, "wb") as f:
            f.write(STALE)


def in_memory(prog, mapping, defines):
    """In-memory API under the same ROM type with the defines prepended as constants."""
    full = [("const", k, N(val)) for k, val in define_values(defines).items()] + prog
    files = dict(FILES)
    files.update(render.files_of(full))
    src = render.source(full)
    out = impl.assemble(src, rom=ROM[mapping], files=files)
    v = refasm.RefAsm(refbus.BUILTIN["high_rom" if mapping == "high" else "low_rom"](), files).assemble(full)
    return out, v, src


def image_bytes(writes):
    """Flat image: writes applied in order to zeros."""
    if not writes:
        return b""
    size = max(a + len(d) for a, d in writes)
    buf = bytearray(size)
    for a, d in writes:
        buf[a:a + len(d)] = d
    return bytes(buf)


def read_output(path, fmt, header):
    """Returns list of writes [(offset, bytes)] recovered from the output file, or raises."""
    data = open(path, "rb").read()
    if fmt == "ips":
        return [(o, p) for o, p, _ in ips.parse(data)], data
    return [(0, data)], data


def judge(tag, fmt, header, mem_out, rc, path, viol, key_extra=""):
    entry = tag.split(":")[0]
    return _judge(entry, tag, fmt, header, mem_out, rc, path, viol, key_extra)


def _judge(entry, tag, fmt, header, mem_out, rc, path, viol, key_extra):
    if rc != 0:
        viol.append({"key": f"frontend:valid-program-fails:{entry}{key_extra}", "msg": f"{tag}: exit/return status {rc} for a program the in-memory API accepts"})
        return "FAILED"
    try:
        writes, raw = read_output(path, fmt, header)
    except (ips.IpsError, OSError) as e:
        viol.append({"key": f"frontend:unreadable-output:{entry}{key_extra}", "msg": f"{tag}: {e}"})
        return "UNREADABLE"
    expected = [(a + (0x200 if (header and fmt == "ips") else 0), d) for a, d in mem_out.blocks]
    if fmt == "ips":
        diff = ips.same_image(expected, writes)
        if diff is not None:
            viol.append({"key": f"frontend:output-differs-from-in-memory:{entry}{key_extra}", "msg": f"{tag}: {diff}; in-memory {mem_out.brief()}"})
            return "DIFFERS"
    else:
        exp = image_bytes(expected)
        alt = image_bytes([(a + 0x200, d) for a, d in expected]) if header else None
        if raw != exp and raw != alt:
            where = next((i for i, (x, y) in enumerate(zip(raw, exp)) if x != y), min(len(raw), len(exp)))
            viol.append({"key": f"frontend:output-differs-from-in-memory:{entry}{key_extra}",
                         "msg": f"{tag}: SFC image differs from the in-memory blocks at offset {where:#x} (file {len(raw)} bytes, expected {len(exp)}); in-memory {mem_out.brief()}"})
            return "DIFFERS"
    return "agrees"


def cli_args(fmt, mapping, header, defines, src_path, out_path, extras=False):
    args = [src_path, "-o", out_path, "-f", fmt]
    if extras:
        # flags that must not change the output
        args = ["--verbose", "--dump-symbols"] + args
    if mapping is not None:
        args += ["-m", mapping]
    if header:
        args.append("--copier-header")
    if defines:
        args += ["-D"] + [f"{k}={v}" for k, v in defines]
    return args


def run_inproc(i):
    from a816.cpu.cpu_65c816 import RomType
    from a816.program import Program
    fmt, mapping, header, defines = lattice()[i]
    viol = []
    outcomes = set()
    evals = 0
    example = None
    nontrivial = (fmt, mapping, header, defines) != ("ips", "low", False, ())
    mtag = f"fmt={fmt},map={mapping},defines={'yes' if defines else 'no'}"
    for pi, (name, prog) in enumerate(programs(mapping, defines).items()):
        stale = bool((pi + i) % 2)
        mem, v, src = in_memory(prog, mapping, defines)
        if v.status == "fail":
            viol.append({"key": "frontend:harness-program-not-valid", "msg": f"{name}: reference verdict {v.status} {v.reason}"})
            continue
        if v.status == "unspec" or name in DIFFERENTIAL_ONLY:
            # the reference does not define this program (bytes before the first *=): differential comparison only
            if not mem.accepted:
                viol.append({"key": f"frontend:in-memory-api-fails:map={mapping}", "msg": f"{name}: {mem.brief()} :: {src!r}"})
                continue
        elif not mem.accepted or mem.blocks != v.blocks:
            viol.append({"key": f"frontend:in-memory-api-fails:map={mapping}",
                         "msg": f"{name}: in-memory API under {ROM[mapping]}: {mem.brief()} expected {[(hex(a), b.hex()) for a, b in v.blocks][:3]} :: {src!r}"})
            outcomes.add("IN-MEMORY-FAILS")
            continue
        # file that the front ends read: the program WITHOUT the prepended defines
        files = dict(FILES)
        files.update(render.files_of(prog))
        files["prog.s"] = render.source(prog)
        impl.write_files(files)
        # --- entry point 1: file API (only without defines: they are a CLI option)
        if not defines:
            prepare_output("out.bin", stale)
            prepare_output("out.sym", stale)
            p = Program()
            try:
                if fmt == "ips":
                    rc = p.assemble_as_patch("prog.s", "out.bin", mapping, header)
                else:
                    if mapping is not None:
                        try:
                            rc = p.assemble("prog.s", "out.bin", mapping)
                        except TypeError:
                            # older signature without a mapping argument: the format cannot honour the mapping
                            p.resolver.rom_type = RomType[ROM[mapping]]
                            rc = p.assemble("prog.s", "out.bin")
                    else:
                        rc = p.assemble("prog.s", "out.bin")
            except Exception as e:  # noqa: BLE001
                rc = f"raised {type(e).__name__}: {e}"
            evals += 1
            outcomes.add("api-" + judge(f"api:{name}", fmt, header, mem, rc, "out.bin", viol, ":" + mtag))
            # symbol file
            if rc == 0:
                try:
                    p.exports_symbol_file("out.sym")
                    lines = open("out.sym").read().splitlines()
                    got = []
                    for ln in lines[1:]:
                        m = re.match(r"^\s*([0-9a-fA-F]+):\s*([0-9a-fA-F]+) (\S+)$", ln)
                        if not m:
                            raise ValueError(f"bad line {ln!r}")
                        got.append((m.group(3), (int(m.group(1), 16) << 16) | int(m.group(2), 16)))
                    # expected from the REFERENCE assembler's label list (one entry per definition outside loops),
                    # not from get_all_labels(), which the symbol file is itself built from
                    exp = [(n, val & 0xFFFFFF) for n, val in (v.labels if v.status == "ok" else mem.labels)]
                    if lines[:1] != ["[labels]"] or sorted(got) != sorted(exp):
                        viol.append({"key": "frontend:symbol-file-differs", "msg": f"{name}: symbol file {sorted(got)} expected {sorted(exp)}"})
                        outcomes.add("SYMFILE-DIFFERS")
                    else:
                        outcomes.add("symfile-agrees")
                    evals += 1
                except Exception as e:  # noqa: BLE001
                    viol.append({"key": "frontend:symbol-file-differs", "msg": f"{name}: {e!r}"})
        # --- entry point 2: cli_main in-process
        if os.path.exists("out2.bin"):
            os.remove("out2.bin")
        os.makedirs("outdir", exist_ok=True)
        out2 = "outdir/out2.bin" if i % 2 else "out2.bin"
        prepare_output(out2, stale)
        src_path = "prog.s"
        if i % 2 == 0:
            # the source lives in a sub-directory; -o and the files it names stay relative to the working directory
            os.makedirs("srcdir", exist_ok=True)
            with open("srcdir/prog.s", "w") as f_:
                f_.write(files["prog.s"])
            src_path = "srcdir/prog.s"
        argv = ["x816"] + cli_args(fmt, mapping, header, defines, src_path, out2, extras=bool(i % 2))
        saved = sys.argv
        sys.argv = argv
        try:
            from a816 import cli
            try:
                cli.cli_main()
                rc = 0
            except SystemExit as e:
                rc = e.code if e.code is not None else 0
            except Exception as e:  # noqa: BLE001
                rc = f"raised {type(e).__name__}: {e}"
        finally:
            sys.argv = saved
        evals += 1
        res = judge(f"cli:{name}", fmt, header, mem, rc, out2, viol, ":" + mtag)
        outcomes.add("cli-" + res)
        if example is None and res == "agrees" and nontrivial:
            example = {"argv": argv, "program": name}
    return {"evals": max(evals, 1), "nontrivial": 1 if nontrivial else 0, "outcome": sorted(outcomes), "violations": viol[:12], "example": example}


def run_subproc(i, pick, tier="quick"):
    fmt, mapping, header, defines = lattice()[i]
    viol = []
    outcomes = set()
    evals = 0
    progs = programs(mapping, defines)
    names = list(progs)
    chosen = set(names) if tier == "thorough" else {names[pick % len(names)], names[-1]}
    mtag = f"fmt={fmt},map={mapping},defines={'yes' if defines else 'no'}"
    for name in sorted(chosen):
        prog = progs[name]
        mem, v, src = in_memory(prog, mapping, defines)
        if v.status == "fail" or not mem.accepted or (v.status == "ok" and name not in DIFFERENTIAL_ONLY and mem.blocks != v.blocks):
            viol.append({"key": f"frontend:in-memory-api-fails:map={mapping}", "msg": f"{name}: {mem.brief()} / reference {v.status}"})
            continue
        files = dict(FILES)
        files.update(render.files_of(prog))
        files["prog.s"] = render.source(prog)
        impl.write_files(files)
        prepare_output("out3.bin", bool((i + len(name)) % 2))
        env = dict(os.environ, PYTHONPATH=impl.REPO, PYTHONDONTWRITEBYTECODE="1")
        cmd = [sys.executable, "-m", "a816.cli"] + cli_args(fmt, mapping, header, defines, "prog.s", "out3.bin", extras=bool(i % 2))
        try:
            pr = subprocess.run(cmd, env=env, capture_output=True, timeout=60)
            rc = pr.returncode
        except subprocess.TimeoutExpired:
            rc = "timeout"
        evals += 1
        outcomes.add("process-" + judge(f"process:{name}", fmt, header, mem, rc, "out3.bin", viol, ":" + mtag))
    nontrivial = (fmt, mapping, header, defines) != ("ips", "low", False, ())
    return {"evals": max(evals, 1), "nontrivial": 1 if nontrivial else 0, "outcome": sorted(outcomes), "violations": viol[:12]}


def run_case(case):
    if case[0] == "inproc":
        return run_inproc(case[1])
    return run_subproc(*case[1:])
