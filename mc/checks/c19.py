"""C19 - assemblies are independent of each other and repeatable (explicit-state search over histories)."""
from __future__ import annotations

import itertools
import json
import os
import pickle
import re
import subprocess
import sys
import types

from mc import impl
from mc.pool import h64

ID = "C19"
LEVEL = "model_checking"
LEVEL_TEXT = ("Explicit-state search over histories of assemblies run in one process: alphabet of 24 events (valid program; program defining "
              "macros, symbols and a named scope whose names collide with the probes'; table load; custom .map; HiROM; failure in the "
              "scanner / parser / code generation / label pass / emission, each mid-way; the CLI in-process with -m and -D; relocation + "
              "incbin + include; failure inside an included file; missing include file; macro block argument; .include_ips with a delta; malformed table file; table file rewritten between assemblies; files read from a sub-directory; code before the first *=; the file API with a mapping argument; failing file-API assemblies of sources in another directory), every history up to depth 2 over all events and depth 3 over 14 core events (thorough 3 / 4) executed from a pristine forked process; the state after each "
              "event is the fingerprint of all module-level mutable state of a816.* and script.* (module globals, class attributes, "
              "function defaults, cache sizes). In every reached state each of 33 probe programs (valid LoROM/HiROM/.map, macros+scopes, "
              "table, failing ones, one that relies on names being absent, files that exist only in a sub-directory, .incbin symbols incl. a file name that is no identifier, code before the first *=, the file API observed through its output file, 400 nested blocks, .text without a table) is assembled twice and must give the blocks, labels, "
              "symbols and error text of the probe assembled alone; one baseline per probe also comes from real fresh interpreters under three string-hash seeds (label order included). "
              "A second family runs <=2 (thorough 3) sources and then a flat probe on ONE Program object and flags silent differences from a fresh Program. Logging is switched on inside the children. Each unit test builds one Program in isolation.")
LEVEL_NOTE = ("If every event maps the initial fingerprint to itself the reachable state set is {s0} and the result extends to histories of "
              "any length over this alphabet (closure). A changed fingerprint alone is not a violation - only a behavioural difference of "
              "a probe is. Messages are compared verbatim (only the line at which the interpreter's recursion limit strikes is normalised).")
TECHNIQUE = "explicit-state BFS over assembly histories with module-state fingerprints; probes compared with a fresh-process baseline"
RULE = ("state = fingerprint of module-level state after a history; transition = one more assembly. All histories up to the depth bound "
        "are executed, each followed by every probe twice. non-trivial = history contains a failing, .map, HiROM or name-colliding "
        "assembly; histories are distinct by construction.")
ASSUMPTIONS = ["a forked child of a process that only imported a816 is equivalent to a fresh process (cross-checked once per run against a real one)",
               "fingerprint covers module globals / class attributes / function defaults / lru_cache sizes of a816.* and script.*"]

def refips_build():
    from mc.ref import ips as _ips
    return _ips.build([(0x1000, b"\x01\x02\x03", "plain"), (0x2000, (4, 0x55), "rle")])


TBL_E = "41=a\n42=b\n"
TBL_P = "10=a\n2021=b\n"
FILES = {"e.tbl": TBL_E, "p.tbl": TBL_P, "blob.bin": bytes(range(16)), "inc.s": "incl:\n.dw incl\n", "badinc.s": "; included file with an error\n.bogus 1\n",
         "bad.tbl": "41=a\n4=b\n43=c\n", "ev.ips": refips_build(),
         # files that exist ONLY in a sub-directory (a probe that names them without the directory must keep failing)
         "odd-name file.bin": bytes([0x71, 0x72, 0x73]),
         "sub/inc2.s": "subl:\n.dw subl\n", "sub/only.s": ".db 0x5a\n", "sub/only.bin": b"\x01\x02", "sub/only.tbl": "30=a\n"}

EVENTS = {
    "valid": ("*=0x018000\nstart:\nlda.w #0x1234\n.dl start\n", "low_rom"),
    "defines-names": (".macro pm(a) {\n.db a, a\n}\nshared = 0x55\nkk := 0x66\n.scope ns {\nval = 0x77\ninner:\n}\n*=0x018000\npm(1)\n.dw shared, kk, ns.val\n", "low_rom"),
    "table": (".table 'e.tbl'\n*=0x018000\n.text 'abba'\n", "low_rom"),
    "custom-map": (".map identifier=1 bank_range=0x00, 0x3f addr_range=0x0000, 0xffff mask=0x10000\n.map identifier=2 bank_range=0x7e, 0x7f addr_range=0x0000, 0xffff mask=0x10000 writable=1\n*=0x018000\nx:\n.dl x\n", "low_rom"),
    "hirom": ("*=0x410000\nh:\n.dl h\n*=0xc20000\n.db 1\n", "high_rom"),
    "fail-scanner": ("*=0x018000\nok1:\n.db 1\nlda.q 0x12\n.db 2\n", "low_rom"),
    "fail-parser": (".macro pm(a) {\n.db a\n}\n*=0x018000\n.db 1\n)\n.db 2\n", "low_rom"),
    "fail-codegen": ("shared := 9\n.scope ns {\nval = 1\n}\n*=0x018000\n{\nnosuchmacro(1)\n}\n", "low_rom"),
    "fail-labelpass": ("*=0x018000\n{\nlater = 5\nlda later\n}\n", "low_rom"),
    "fail-emit": (".table 'e.tbl'\n*=0x028000\n.db 1, 2\n{\n.dw nosuchsymbol\n}\n.db 3\n", "low_rom"),
    "cli": (None, None),
    "block-argument": (".macro wrapb(blk, num) {\n{{blk}}\n.db num\n}\n*=0x018000\nwrapb({\n.db 0x51\n}, 7)\n", "low_rom"),
    "ips-with-delta": ("*=0x018000\n.db 1\n.include_ips 'ev.ips', 0-0x100\n", "low_rom"),
    "bad-table": ("*=0x018000\n.table 'bad.tbl'\n.text 'a'\n", "low_rom"),
    "rewritten-table": ("REWRITE", "low_rom"),
    "many-wide-operands": ("*=0x018000\n" + "".join(f"lda 0x{0x1200 + i:04x}\nsta 0x{0x7e0000 + i:06x}\nadc 0x{0x2100 + i:04x},x\n" for i in range(120)) +
                           ".db " + ", ".join(str(i % 251) for i in range(3000)) + "\n", "low_rom"),
    "fail-in-include": ("*=0x018000\n.db 1\n.include 'badinc.s'\n.db 2\n", "low_rom"),
    "missing-include": ("*=0x018000\n.db 1\n.include 'nosuchfile.s'\n", "low_rom"),
    "reloc-files": ("*=0x018000\n.include 'inc.s'\n.incbin 'blob.bin'\n@=0x7e2000\nr:\n.pointer r\n", "low_rom"),
    "files-from-subdir": ("*=0x018000\n.include 'sub/inc2.s'\n.incbin 'sub/only.bin'\n.table 'sub/only.tbl'\n.text 'a'\n", "low_rom"),
    # code BEFORE the first *= (assembled at the mapping's default start), through the string API and through the file API with
    # an explicit mapping argument
    "no-org": ("n0:\nlda.w #0x1234\n.db 1, 2, 3\njsr.w n0\n", "low_rom"),
    "file-api-no-org": ("FILEAPI", None),
    # failing assemblies through the file API, the source sitting in another directory
    "file-api-failures": ("FILEFAIL", None),
    # the very text (and file name) of probe p-include assembled while the file it includes has OTHER content
    "rewritten-include": ("REINCLUDE", None),
}
EVENT_NAMES = list(EVENTS)
PROBES = {
    "p-valid": ("*=0x018000\nshared = 0x11\n.macro pm(a) {\n.db a\n}\nstart:\npm(7)\n.dw shared\n.dl start\n", "low_rom"),
    "p-hirom": ("*=0x410010\nh:\n.dl h\n.db 9\n", "high_rom"),
    "p-scopes": ("kk := 2\n.macro mm(a, b) {\nloc:\n.db a, b\n.dw loc\n}\n*=0x018000\n.scope ns {\nval = 0x21\ninner:\n.db val\n}\nmm(kk, ns.val)\n.for i := 0, kk {\n.db i\n}\n.if kk {\n.dl ns.inner\n}\n", "low_rom"),
    "p-table": (".table 'p.tbl'\n*=0x018000\n.text 'abba'\nafter:\n.dw after\n", "low_rom"),
    "p-fail-node": ("*=0x018000\n.db 1\nlda.w missing_symbol\n", "low_rom"),
    "p-fail-scan": ("*=0x018000\n.db 1\n  lda 0x12,z\n", "low_rom"),
    "p-absent-names": ("*=0x018000\n.dw shared\npm(1)\n.dw ns.val\n.text 'ab'\n", "low_rom"),
    "p-param-as-number": (".macro useb(blk, num) {\n.db blk, num\n}\n*=0x018000\nuseb(5, 6)\n", "low_rom"),
    "p-undefined-splice": ("*=0x018000\n.db 1\n{{blk}}\n", "low_rom"),
    "p-ips-with-delta": ("*=0x018000\n.db 2\n.include_ips 'ev.ips', 0-0x100\n.include_ips 'ev.ips', 0x40\n", "low_rom"),
    "p-bad-table": ("*=0x018000\n.table 'bad.tbl'\n.text 'a'\n", "low_rom"),
    "p-fail-include": ("*=0x018000\n.include 'inc.s'\n.include 'badinc.s'\n", "low_rom"),
    "p-missing-include": ("*=0x018000\n.include 'inc.s'\n.include 'nosuchfile.s'\n", "low_rom"),
    "p-map-same-address-other-layout": (".map identifier=1 bank_range=0x00, 0x3f addr_range=0x8000, 0xffff mask=0x8000\n*=0x018000\nx:\n.dl x\n*=0x028010\n.db 7\n", "low_rom"),
    "p-same-address-labels": ("*=0x018000\nfirst:\nsecond:\nthird:\nfourth:\n.db 1\nzeta:\nalpha:\nmid:\n.db 2\n{\nfirst:\nomega:\n}\n", "low_rom"),
    "p-narrow-operands": ("*=0x018000\n" + "".join(f"lda 0x{0x10 + i:02x}\nsta 0x{0x20 + i:02x},x\n" for i in range(60)) + "end:\n.dl end\n", "low_rom"),
    "p-map": (".map identifier=1 bank_range=0x10, 0x1f addr_range=0x8000, 0xffff mask=0x8000\n*=0x108000\nm:\n.dl m\n", "low_rom"),
    "p-incbin-symbols": ("*=0x018000\n.incbin 'blob.bin'\n.dw blob_bin, blob_bin__size\n.incbin 'sub/only.bin'\n.dl sub_only_bin\n", "low_rom"),
    "p-file-only-in-subdir": ("*=0x018000\n.db 1\n.include 'only.s'\n", "low_rom"),
    "p-bin-only-in-subdir": ("*=0x018000\n.db 1\n.incbin 'only.bin'\n", "low_rom"),
    "p-table-only-in-subdir": ("*=0x018000\n.table 'only.tbl'\n.text 'a'\n", "low_rom"),
    "p-no-org": ("n0:\nlda.w #0x1234\nbra n0\njsr.w n0\nn1:\n.dl n1\n", "low_rom"),
    "p-no-org-hirom": ("n0:\n.db 1\njmp.w n0\nn1:\n.dl n1\n", "high_rom"),
    "p-file-api-low": ("n0:\nlda.w #0x1234\nbra n0\njsr.w n0\nn1:\n.dl n1\n*=0x018000\nf1:\n.dl f1\n", "file:low:ips"),
    "p-file-api-high-sfc": ("n0:\n.db 1\njmp.w n0\nn1:\n.dl n1\n", "file:high:sfc"),
    # 400 nested blocks: beyond what the interpreter's default recursion limit lets the parser do, whatever was assembled before
    "p-deep-nesting": ("*=0x018000\n" + "{\n" * 400 + "nop\n" + "}\n" * 400 + "rts\n", "low_rom"),
    # a file name that is not an identifier: the names of its symbols are the same in every process
    "p-incbin-odd-name": ("*=0x018000\n.incbin 'odd-name file.bin'\nafter_odd:\n.db 1\n", "low_rom"),
    "p-text-without-table": ("*=0x018000\n.db 1\n.text 'ab'\n", "low_rom"),
    "p-file-api-incbin": ("*=0x018000\n.incbin 'blob.bin'\nfa:\n.dl fa\n", "file:low:ips"),
    "p-struct": ("*=0x018000\n.db 1\n.struct foo {\n}\n", "low_rom"),
    "p-include": ("*=0x018000\n.include 'inc.s'\n.db 7\nafter_inc:\n.dl after_inc\n", "low_rom"),
    # the command line without options (after an earlier command line WITH options: -m high -D FOO=1)
    "p-cli-plain": ("*=0x018000\nc0:\n.dl c0\n.db 5\n", "cli"),
    "p-file-api-default": ("n0:\n.db 1\njmp.w n0\nn1:\n.dl n1\n", "file:none:ips"),
}
PROBE_NAMES = list(PROBES)
NONTRIVIAL_EVENTS = {"defines-names", "table", "custom-map", "hirom", "fail-scanner", "fail-parser", "fail-codegen", "fail-labelpass", "fail-emit", "cli", "fail-in-include", "missing-include", "block-argument", "ips-with-delta", "bad-table", "rewritten-table", "many-wide-operands", "files-from-subdir", "no-org", "file-api-no-org", "file-api-failures", "rewritten-include"}


def bound(tier):
    if tier == "thorough":
        return "all histories of length <= 3 over 24 events and of length 4 over 14 core events (from a pristine process each), 33 probes x 2 after every history; same-Program-object histories <= 3 over 10 sources x 4 flat probes"
    return "all histories of length <= 2 over 24 events and of length 3 over 14 core events (from a pristine process each), 33 probes x 2 after every history; same-Program-object histories <= 2 over 10 sources x 4 flat probes"


def norm(text):
    if text is None:
        return None
    text = str(text)
    if "RecursionError" in text or "maximum recursion depth" in text:
        return "<recursion limit reached>"  # where exactly the interpreter gives up depends on the caller's stack depth
    return text  # no other normalisation: a message that embeds an object address is not repeatable, and that is reported


def observe_file(src, mapping, fmt):
    """The probe through the file API with an explicit mapping argument; observation = status, output file, labels."""
    import signal
    from a816.program import Program
    with open("probe_f.s", "w") as f:
        f.write(src)
    signal.setitimer(signal.ITIMER_REAL, 10)
    try:
        try:
            p = Program()
            m = None if mapping == "none" else mapping
            rc = p.assemble_as_patch("probe_f.s", "probe_f.out", m) if fmt == "ips" else p.assemble("probe_f.s", "probe_f.out", m)
            status, err = ("ok" if rc == 0 else "err"), None
        finally:
            signal.setitimer(signal.ITIMER_REAL, 0)
    except impl.Timeout:
        return ("timeout",)
    except Exception as e:  # noqa: BLE001
        status, err, rc = "exc", type(e).__name__ + ": " + str(norm(e)), None
    try:
        with open("probe_f.out", "rb") as f:
            data = f.read().hex()
    except OSError:
        data = None
    try:
        labels = [list(x) for x in p.resolver.get_all_labels()]
    except Exception:  # noqa: BLE001
        labels = None
    return (status, rc, data, labels, err)


def observe_cli(src):
    """The probe through cli_main (in-process) with only the input and output file named."""
    from a816 import cli
    with open("probe_c.s", "w") as f:
        f.write(src)
    if os.path.exists("probe_c.out"):
        os.remove("probe_c.out")
    saved = sys.argv
    sys.argv = ["x816", "probe_c.s", "-o", "probe_c.out"]
    try:
        try:
            cli.cli_main()
            code = 0
        except SystemExit as e:
            code = e.code if e.code is not None else 0
        except Exception as e:  # noqa: BLE001
            code = "raised " + type(e).__name__
    finally:
        sys.argv = saved
    try:
        with open("probe_c.out", "rb") as f:
            data = f.read().hex()
    except OSError:
        data = None
    return ("cli", code, data)


def observe(src, rom):
    if rom == "cli":
        return observe_cli(src)
    if rom is not None and rom.startswith("file:"):
        _, mapping, fmt = rom.split(":")
        return observe_file(src, mapping, fmt)
    out = impl.assemble(src, rom=rom, filename="probe.s")
    return (out.status, [(a, b.hex()) for a, b in out.blocks], sorted(out.labels), sorted(out.symbols.items()), out.exc_type, norm(out.error),
            [list(x) for x in out.labels])  # last item: labels in the order get_all_labels() lists them (symbol-file order)


def do_event(name):
    if name == "cli":
        from a816 import cli
        with open("cli.s", "w") as f:
            f.write("*=0x410000\n.dw FOO\n")
        saved = sys.argv
        sys.argv = ["x816", "cli.s", "-o", "cli.out", "-m", "high", "-D", "FOO=1"]
        try:
            try:
                cli.cli_main()
            except SystemExit:
                pass
            except Exception:  # noqa: BLE001
                pass
        finally:
            sys.argv = saved
        return
    src, rom = EVENTS[name]
    if src == "FILEAPI":
        from a816.program import Program
        with open("fa.s", "w") as f:
            f.write("start0:\nlda.w #0x1234\njsr.w start0\n.db 1, 2, 3\n*=0x028000\n.db 4\n")
        for fmt, mapping in (("ips", "low"), ("sfc", "high"), ("ips", None), ("ips", "low")):
            try:
                pr = Program()
                (pr.assemble_as_patch if fmt == "ips" else pr.assemble)("fa.s", "fa.out", mapping)
            except Exception:  # noqa: BLE001
                pass
        return
    if src == "REINCLUDE":
        impl.write_files({"inc.s": "incl:\n.db 0x99, 0x98\n.dw incl\n"})
        impl.assemble(PROBES["p-include"][0], rom="low_rom", filename="probe.s")
        os.remove("inc.s")
        impl.assemble(PROBES["p-include"][0], rom="low_rom", filename="probe.s")   # and once while the file is missing
        impl.write_files({"inc.s": FILES["inc.s"]})
        return
    if src == "FILEFAIL":
        from a816.program import Program
        os.makedirs("elsewhere", exist_ok=True)
        impl.write_files({"elsewhere/blob.bin": b"\xEE" * 4, "elsewhere/bad1.s": "*=0x018000\n.db 1\nlda.w nosuchsymbol\n",
                          "elsewhere/bad2.s": "*=0x018000\n.db 1\n)\n", "elsewhere/bad3.s": "*=0x018000\n.incbin 'nosuch.bin'\n"})
        for srcf in ("elsewhere/bad1.s", "elsewhere/bad2.s", "elsewhere/bad3.s"):
            for fmt in ("ips", "sfc"):
                try:
                    pr = Program()
                    (pr.assemble_as_patch if fmt == "ips" else pr.assemble)(srcf, "ff.out", "low")
                except Exception:  # noqa: BLE001
                    pass
        return
    if src == "REWRITE":
        # an assembly that loads p.tbl while the file has OTHER content; the file is put back afterwards
        impl.write_files({"p.tbl": "77=a\n78=b\n"})
        impl.assemble(".table 'p.tbl'\n*=0x018000\n.text 'ab'\n", rom=rom, filename="event.s")
        impl.write_files({"p.tbl": TBL_P})
        return
    impl.assemble(src, rom=rom, filename="event.s")


# ---- fingerprint of module-level state ----------------------------------------------------

def fingerprint():
    seen = {}

    def ser(o, depth=0):
        if depth > 12:
            return "<deep>"
        if o is None or isinstance(o, (bool, int, float, str, bytes)):
            return repr(o)
        i = id(o)
        if i in seen:
            return f"<ref {seen[i]}>"
        if isinstance(o, (list, tuple)):
            seen[i] = len(seen)
            return "[" + ",".join(ser(x, depth + 1) for x in o) + "]"
        if isinstance(o, (set, frozenset)):
            seen[i] = len(seen)
            return "{" + ",".join(sorted(ser(x, depth + 1) for x in o)) + "}"
        if isinstance(o, dict):
            seen[i] = len(seen)
            return "{" + ",".join(sorted(ser(k, depth + 1) + ":" + ser(v, depth + 1) for k, v in o.items())) + "}"
        if isinstance(o, types.ModuleType):
            return f"<module {o.__name__}>"
        if isinstance(o, (types.FunctionType, types.BuiltinFunctionType, types.MethodType)) or hasattr(o, "cache_info"):
            s = f"<fn {getattr(o, '__qualname__', type(o).__name__)}"
            if hasattr(o, "cache_info"):
                try:
                    s += f" cache={o.cache_info().currsize}"
                except Exception:  # noqa: BLE001
                    pass
            d = getattr(o, "__defaults__", None)
            if d:
                s += " defaults=" + ser(d, depth + 1)
            kd = getattr(o, "__kwdefaults__", None)
            if kd:
                s += " kwdefaults=" + ser(kd, depth + 1)
            return s + ">"
        if isinstance(o, type):
            mod = getattr(o, "__module__", "")
            if not (mod.startswith("a816") or mod.startswith("script")):
                return f"<class {mod}.{o.__qualname__}>"
            seen[i] = len(seen)
            items = []
            for k, v in sorted(vars(o).items()):
                if k.startswith("__") and k.endswith("__"):
                    continue
                items.append(k + "=" + ser(v, depth + 1))
            return f"<class {o.__qualname__} " + ",".join(items) + ">"
        mod = getattr(type(o), "__module__", "")
        if mod.startswith("a816") or mod.startswith("script"):
            seen[i] = len(seen)
            try:
                d = vars(o)
            except TypeError:
                d = {s: getattr(o, s, None) for s in getattr(type(o), "__slots__", ())}
            return f"<{type(o).__qualname__} " + ",".join(k + "=" + ser(v, depth + 1) for k, v in sorted(d.items())) + ">"
        if isinstance(o, (staticmethod, classmethod, property)):
            return f"<{type(o).__name__}>"
        return f"<{type(o).__module__}.{type(o).__qualname__}>"

    parts = []
    for name in sorted(sys.modules):
        if name == "a816" or name.startswith("a816.") or name == "script" or name.startswith("script."):
            m = sys.modules[name]
            if m is None:
                continue
            for k, v in sorted(vars(m).items()):
                if k.startswith("__") and k.endswith("__"):
                    continue
                parts.append(f"{name}.{k}=" + ser(v))
    return h64("\n".join(parts))


def enable_logging():
    """The harness silences logging globally; in C19's children it is switched back on (quietly), so that state kept in logging
    handlers by the code under test behaves as it would in a user's process."""
    import logging
    logging.disable(logging.NOTSET)
    root = logging.getLogger()
    if not any(isinstance(h, logging.NullHandler) for h in root.handlers):
        root.addHandler(logging.NullHandler())


def import_all():
    enable_logging()
    import a816.cli  # noqa: F401
    import a816.program  # noqa: F401
    import a816.parse.ast.expression  # noqa: F401
    import script.formulas  # noqa: F401
    import script.pointers  # noqa: F401


def in_child(fn):
    r, w = os.pipe()
    pid = os.fork()
    if pid == 0:
        try:
            os.close(r)
            try:
                data = pickle.dumps(("ok", fn()))
            except BaseException as e:  # noqa: BLE001
                data = pickle.dumps(("crash", repr(e)))
            with os.fdopen(w, "wb") as f:
                f.write(data)
        finally:
            os._exit(0)
    os.close(w)
    with os.fdopen(r, "rb") as f:
        data = f.read()
    os.waitpid(pid, 0)
    return pickle.loads(data) if data else ("crash", "no data from child")


def history_run(hist):
    """Executed in a forked child: run the history, fingerprint after each event, then every probe twice."""
    import_all()
    impl.write_files(FILES)
    fps = [fingerprint()]
    for ev in hist:
        do_event(ev)
        fps.append(fingerprint())
    obs = {}
    for p in PROBE_NAMES:
        src, rom = PROBES[p]
        obs[p] = (observe(src, rom), observe(src, rom))
    return fps, obs


_BASE = None


def probe_alone(p):
    import_all()
    impl.write_files(FILES)
    src, rom = PROBES[p]
    return fingerprint(), observe(src, rom)


def baseline():
    """Each probe ALONE in its own pristine child process (never after another probe)."""
    global _BASE
    if _BASE is None:
        fps = None
        obs = {}
        for p in PROBE_NAMES:
            kind, val = in_child(lambda p=p: probe_alone(p))
            if kind != "ok":
                raise RuntimeError("baseline failed: " + str(val))
            fps = [val[0]]
            obs[p] = (val[1], val[1])
        _BASE = (fps, obs)
    return _BASE


# ---- one Program OBJECT used for several sources ------------------------------------------------------------------
# Names persist on a reused Program by design and scope replay is positional, so the probes below are flat (no blocks, scopes,
# macros or loops - a second source with scopes is not supported by the pinned tree), define every name they use, start with
# `*=` (the run address is not reset between sources), and only their blocks / status / error / own label values are compared.
REUSE_EVENTS = {
    "r-valid": "*=0x028000\nstart:\nloop:\n.db 1, 2, 3\nbne loop\n.dl start\n",
    "r-fail-emit": "*=0x038000\n.db 0x51, 0x52\n{\n.dw nosuchsymbol\n}\n.db 3\n",
    "r-fail-emit-late": "*=0x038000\nstart:\n.db 0x51\n*=0x039000\n.db 0x52, 0x53\nlda.w nosuchsymbol\n",
    "r-fail-parse": "*=0x018000\n.db 1\n)\n",
    "r-fail-scan": "*=0x018000\n.db 1\nlda.q 1\n",
    "r-fail-codegen": "*=0x018000\n{\nnosuchmacro(1)\n}\n",
    "r-scopes": "*=0x048000\n{\nea:\n.dw ea\n{\neb:\n.dw eb\n}\n}\n.scope ens {\nev = 3\n.db ev\n}\n",
    "r-macro": ".macro pm(a) {\n.db a, a\n}\n*=0x058000\npm(5)\n",
    "r-reloc": "*=0x068000\n@=0x7e2000\nr0:\n.pointer r0\n",
    "r-table": ".table 'e.tbl'\n*=0x078000\n.text 'ab'\n",
}
REUSE_EVENT_NAMES = list(REUSE_EVENTS)
REUSE_PROBES = {
    "rp-flat": "*=0x018000\nstart:\n.db 7\nloop:\ndex\nbne loop\n.dl start\n.dw loop\n",
    "rp-two-blocks": "*=0x018300\nt0:\n.db 1\n*=0x028300\nt1:\n.dl t0, t1\n",
    "rp-fail": "*=0x018000\n.db 1\n.dw rp_missing_symbol\n",
    "rp-branches": "*=0x018400\nstart:\nloop:\nnop\nbeq done\nbra loop\ndone:\nrts\njsr.w start\n",
}
REUSE_PROBE_NAMES = list(REUSE_PROBES)


def _reuse_observe(prog, src):
    import signal
    w = impl.RecWriter()
    signal.setitimer(signal.ITIMER_REAL, 10)
    try:
        try:
            err = prog.assemble_string_with_emitter(src, "probe.s", w)
            status, exc = ("ok" if err is None else "err"), None
        finally:
            signal.setitimer(signal.ITIMER_REAL, 0)
    except impl.Timeout:
        return ("timeout",)
    except Exception as e:  # noqa: BLE001
        status, err, exc = "exc", norm(e), type(e).__name__
    try:
        labels = sorted(prog.resolver.get_all_labels())
    except Exception:  # noqa: BLE001
        labels = None
    return (status, [(a, b.hex()) for a, b in w.blocks], exc, norm(err), labels)


def reuse_run(hist):
    """In a forked child: the events of `hist` and then each probe twice, all on ONE Program object per probe."""
    from a816.cpu.cpu_65c816 import RomType
    from a816.program import Program
    import_all()
    impl.write_files(FILES)
    obs = {}
    for p in REUSE_PROBE_NAMES:
        prog = Program()
        prog.resolver.rom_type = RomType.low_rom
        for ev in hist:
            _reuse_observe(prog, REUSE_EVENTS[ev])
        obs[p] = (_reuse_observe(prog, REUSE_PROBES[p]), _reuse_observe(prog, REUSE_PROBES[p]))
    return obs


def run_reuse(n, pre):
    viol = []
    outcomes = set()
    evals = nt = transitions = 0
    kind, base = in_child(lambda: reuse_run([]))
    if kind != "ok":
        return {"evals": 1, "nt_count": 0, "outcome": ["HARNESS"], "violations": [{"key": "independence:reuse-harness", "msg": str(base)}]}
    own = {p: [tuple(x) for x in (base[p][0][4] or [])] for p in REUSE_PROBE_NAMES}

    def view(o, p):
        # labels: the probe's own (name, value) pairs must all be listed; leftovers of earlier sources are not compared
        if len(o) < 5:
            return o
        have = {tuple(x) for x in (o[4] or [])}
        return (o[0], o[1], o[2], o[3], [x for x in own[p] if x in have])

    tails = [()] if n == len(pre) else itertools.product(range(len(REUSE_EVENT_NAMES)), repeat=n - len(pre))
    for tail in tails:
        hist = [REUSE_EVENT_NAMES[i] for i in tuple(pre) + tuple(tail)]
        kind, obs = in_child(lambda h=hist: reuse_run(h))
        evals += len(REUSE_PROBE_NAMES) * (2 + len(hist))
        transitions += len(hist)
        nt += 1 if hist else 0
        if kind != "ok":
            viol.append({"key": "independence:reuse-harness", "msg": f"{hist}: {obs}"})
            continue
        good = True
        for p in REUSE_PROBE_NAMES:
            first, second = view(obs[p][0], p), view(obs[p][1], p)
            alone = view(base[p][0], p)
            # Only SILENT differences count: a reused Program may refuse a further source (the pinned tree does so after a
            # failure inside a block, or for a second source with scopes), but when it accepts one, the output must be the
            # fresh output. A probe that fails when fresh is not compared (names of earlier sources persist by design).
            for which, o in (("first", first), ("second", second)):
                if o[0] == "ok" and alone[0] == "ok" and o != alone:
                    viol.append({"key": f"independence:same-program-object:{p}:after-{hist[-1] if hist else 'nothing'}",
                                 "msg": f"sources {hist} then probe {p} ({which} run) on ONE Program object are accepted with {o}; on a fresh Program the probe gives {alone}"})
                    good = False
                    break
            if not good:
                break
            outcomes.add("reuse-refused" if first[0] != "ok" and alone[0] == "ok" else "reuse-same-as-fresh")
        if not good:
            outcomes.add("REUSE-DIFFERS")
        if len(viol) > 12:
            break
    return {"evals": max(evals, 1), "nt_count": nt, "transitions": max(transitions, 1), "outcome": sorted(outcomes) or ["none"],
            "violations": viol[:12], "depth": n}


CORE_EVENTS = ["rewritten-include", "file-api-failures", "file-api-no-org", "files-from-subdir", "many-wide-operands", "defines-names", "custom-map", "hirom", "fail-codegen", "fail-emit", "cli", "block-argument", "rewritten-table", "fail-in-include"]


def cases(tier, seed):
    full_d = 3 if tier == "thorough" else 2
    core_d = 4 if tier == "thorough" else 3
    yield ("fresh-interpreter",)
    for n in range(0, full_d + 1):
        if n <= 1:
            yield ("hist", n, ())
        else:
            for pre in itertools.product(range(len(EVENT_NAMES)), repeat=n - 1):
                yield ("hist", n, pre)
    core = [EVENT_NAMES.index(e) for e in CORE_EVENTS]
    for pre in itertools.product(core, repeat=core_d - 1):
        yield ("hist-core", core_d, pre)
    reuse_d = 3 if tier == "thorough" else 2
    for n in range(0, reuse_d + 1):
        if n <= 1:
            yield ("reuse", n, ())
        else:
            for pre in itertools.product(range(len(REUSE_EVENT_NAMES)), repeat=n - 1):
                yield ("reuse", n, pre)


def describe(case, res):
    d = {"case": list(case), "outcome": res.get("outcome")}
    if case[0] in ("hist", "hist-core"):
        d["history_prefix"] = [EVENT_NAMES[i] for i in case[2]]
    if case[0] == "reuse":
        d["history_prefix"] = [REUSE_EVENT_NAMES[i] for i in case[2]]
    if res.get("example"):
        d["example"] = res["example"]
    return d


def compare_obs(hist, obs, base_obs, viol):
    for p in PROBE_NAMES:
        first, second = obs[p]
        if first != base_obs[p][0]:
            culprit = next((e for e in hist if e in NONTRIVIAL_EVENTS), hist[0] if hist else "none")
            viol.append({"key": f"independence:probe-changed-by-history:{p}:after-{hist[-1] if hist else 'nothing'}",
                         "msg": f"history {hist}: probe {p} gives {first} but alone it gives {base_obs[p][0]}"})
            _ = culprit
            return False
        if second != first:
            viol.append({"key": f"independence:not-repeatable:{p}", "msg": f"history {hist}: probe {p} first {first} second {second}"})
            return False
    return True


def run_fresh():
    """One baseline per probe from a real fresh interpreter, compared with the forked-child baseline."""
    base = baseline()
    viol = []
    tmpl = (
        "import sys, json\nsys.path.insert(0, %r); sys.path.insert(0, %r)\nfrom mc import impl\nfrom mc.checks import c19\n"
        "impl.setup_worker()\nimpl.write_files(c19.FILES)\nprint('RESULT' + json.dumps(c19.observe(*c19.PROBES[%%r])), file=sys.__stdout__)\n"
        % (impl.REPO, os.path.dirname(os.path.dirname(os.path.dirname(os.path.abspath(__file__))))))
    for p in PROBE_NAMES:
        # one real, fresh interpreter per probe
        fresh = None
        for hashseed in ("0", "1", "4242"):
            # the result of an assembly may not depend on the interpreter's string-hash seed either
            pr = subprocess.run([sys.executable, "-c", tmpl % p], capture_output=True, timeout=120,
                                env=dict(os.environ, PYTHONDONTWRITEBYTECODE="1", PYTHONHASHSEED=hashseed))
            text = pr.stdout.decode()
            m = re.search(r"RESULT(.*)", text)
            if not m:
                viol.append({"key": "independence:fresh-interpreter-baseline-failed", "msg": (text + pr.stderr.decode())[-400:]})
                break
            got = json.loads(m.group(1))
            if fresh is not None and got != fresh:
                viol.append({"key": f"independence:result-depends-on-hash-seed:{p}", "msg": f"PYTHONHASHSEED=0: {fresh} / {hashseed}: {got}"})
            fresh = fresh if fresh is not None else got
        if fresh is None:
            continue
        a = json.loads(json.dumps(base[1][p][0]))
        if fresh != a:
            viol.append({"key": f"independence:fork-baseline-differs-from-fresh-interpreter:{p}", "msg": f"{fresh} vs {a}"})
    return {"evals": len(PROBE_NAMES), "nt_count": len(PROBE_NAMES), "outcome": "fresh-baseline-agrees" if not viol else "FRESH-DIFFERS",
            "violations": viol}


def run_hist(n, pre, core=False):
    base_fps, base_obs = baseline()
    s0 = base_fps[0]
    viol = []
    outcomes = set()
    evals = nt = 0
    states = set()
    transitions = 0
    example = None
    alphabet = [EVENT_NAMES.index(e) for e in CORE_EVENTS] if core else range(len(EVENT_NAMES))
    tails = [()] if n == len(pre) else itertools.product(alphabet, repeat=n - len(pre))
    for tail in tails:
        hist = [EVENT_NAMES[i] for i in tuple(pre) + tuple(tail)]
        kind, val = in_child(lambda h=hist: history_run(h))
        evals += 1 + 2 * len(PROBE_NAMES)
        if kind != "ok":
            viol.append({"key": "independence:history-crashed-harness", "msg": f"{hist}: {val}"})
            continue
        fps, obs = val
        states.update(fps)
        transitions += len(hist)
        if any(e in NONTRIVIAL_EVENTS for e in hist):
            nt += 1
        ok = compare_obs(hist, obs, base_obs, viol)
        if all(f == s0 for f in fps):
            outcomes.add("state-unchanged" if ok else "PROBE-CHANGED")
        else:
            outcomes.add("state-changed-probes-same" if ok else "PROBE-CHANGED")
        if example is None and ok and len(hist) == n and n >= 2:
            example = {"history": hist, "fingerprints": [hex(f) for f in fps], "probe p-valid": obs["p-valid"][0][:2]}
        if len(viol) > 12:
            break
    return {"evals": max(evals, 1), "nt_count": nt, "states": list(states), "transitions": max(transitions, 1), "outcome": sorted(outcomes) or ["none"],
            "violations": viol[:12], "example": example, "depth": n}


def run_case(case):
    if case[0] == "fresh-interpreter":
        return run_fresh()
    if case[0] == "reuse":
        return run_reuse(case[1], case[2])
    return run_hist(case[1], case[2], core=(case[0] == "hist-core"))
