"""C01 - accepted instructions encode exactly as the 65c816 ISA defines (complete product)."""
from __future__ import annotations

import json
import os

from mc import impl
from mc.ref import isa

ID = "C01"
LEVEL = "exploration"
LEVEL_TEXT = ("Complete enumeration of the finite product mnemonic (all 92 ISA mnemonics) x 41 operand shapes (all legal "
              "shapes and every malformed bracket/index combination, plus 20 operand texts with mismatched or unbalanced brackets) x size suffix x boundary values (and, with .b/.w, values beyond 24 bits) x letter case, plus "
              "operand-expression variants and complete value sweeps (every value 0..0x1FFFF and around 2^24 for 8 representative cells, thorough), each assembled as a one-instruction program by the real assembler and judged "
              "against an independent 65c816 opcode matrix: defined => exact bytes, undefined => rejected, supported set "
              "=> still accepted. The suite pins ~10 encodings; this decides every table cell.")
LEVEL_NOTE = ("Trusted: the opcode matrix mc/ref/isa_matrix.py (written from the ISA, cross-checked in DESIGN Appendix A) and the "
              "frozen supported set mc/ref/c01_supported.json (cells the pinned commit accepts). Values that fit no width, and "
              "branch displacements (C05), are outside this check.")
TECHNIQUE = "exhaustive enumeration of mnemonic x operand shape x suffix x value x case against an independent ISA matrix"
RULE = ("one case = (mnemonic, letter-case style, kind); it assembles every shape x suffix x value one-instruction program for "
        "that mnemonic (kind 'lit'), or every expression form for every supported cell (kind 'expr'). evaluations = programs "
        "assembled. non-trivial = the instruction is accepted or is an ISA-defined cell; distinct by construction (each "
        "(mnemonic, shape, suffix, value, case, form) text is generated once).")
ASSUMPTIONS = ["ISA matrix in mc/ref/isa_matrix.py", "aliases jsr/jmp long and jmp [abs] accepted as a816 documents them",
               "rejected = non-None return or any exception"]

VALUES_Q = [0x00, 0x12, 0xFF, 0x100, 0x1234, 0xFFFF, 0x10000, 0x123456, 0xFFFFFF]
VALUES_T = sorted(set(VALUES_Q + [0x01, 0x7F, 0x80, 0xFE, 0x101, 0x7FFF, 0x8000, 0xFFFE, 0x10001, 0x7FFFFF, 0x800000,
                                  0xFFFFFE, 0xABCDEF, 0xABCD, 0xAB]))
# values that need more than 24 bits: only with an explicit .b/.w suffix (truncation); .l / no suffix: no claim
VALUES_BIG = [0x1000000, 0x12345678, 0xFFFFFFFF]
# operand texts with mismatched or unbalanced brackets: no 65c816 operand shape, for any mnemonic
MALFORMED = ["({v}]", "[{v})", "({v}],y", "[{v}),y", "({v},x]", "[{v},x)", "({v},s],y", "({v}", "{v})", "[{v}", "{v}]", "({v},x", "#({v}",
             "({v})),y", "(({v}),y", "#{v})", "#{v}]", "({v}],x", "{v},x)", "{v},y]"]
SUFFIXES = ["", ".b", ".w", ".l"]
SUFW = {"": None, ".b": 1, ".w": 2, ".l": 3}
SUPPORTED_PATH = os.path.join(os.path.dirname(os.path.dirname(__file__)), "ref", "c01_supported.json")
_SUPPORTED = None


def supported():
    global _SUPPORTED
    if _SUPPORTED is None:
        if os.path.exists(SUPPORTED_PATH):
            with open(SUPPORTED_PATH) as f:
                _SUPPORTED = {tuple(x) for x in json.load(f)["cells"]}
        else:
            _SUPPORTED = set()
    return _SUPPORTED


def bound(tier):
    vals = VALUES_T if tier == "thorough" else VALUES_Q
    return (f"{len(isa.MNEMONICS)} mnemonics x {len(isa.ALL_SHAPES)} shapes x 4 suffixes x {len(vals)} values x 2 case styles; "
            f"expression forms x supported cells ({len(supported())}); every operand value in "
            + ("0..0x1FFFF and 0xFF0000..0x10007FF" if tier == "thorough" else "0..0x3FF, 0xFE00..0x101FF and 0xFFFE00..0x10001FF")
            + f" x 4 suffixes for {len(SWEEP_CELLS)} representative cells")


def shape_id(shape):
    return "implied" if shape is None else isa.render_operand(shape, "v")


def cases(tier, seed):
    for mn in isa.MNEMONICS:
        for style in ("lower", "upper"):
            yield ("lit", mn, style, tier)
    for mn in isa.MNEMONICS:
        yield ("expr", mn, "lower", tier)
    # value sweeps: EVERY operand value of a range for a few representative cells (width choice and truncation)
    for ci in range(len(SWEEP_CELLS)):
        for lo, hi in sweep_ranges(tier):
            for a in range(lo, hi, 0x800):
                yield ("sweep", ci, a, min(a + 0x800, hi))


SWEEP_CELLS = [("lda", ("", "", "")), ("lda", ("#", "", "")), ("sta", ("", "", "x")), ("jmp", ("", "", "")), ("adc", ("(", "", "y")),
               ("ldx", ("", "", "y")), ("pea", ("", "", "")), ("jsr", ("(", "x", ""))]


def sweep_ranges(tier):
    if tier == "thorough":
        return [(0, 0x20000), (0xFF0000, 0x1000800)]
    return [(0, 0x400), (0xFE00, 0x10200), (0xFFFE00, 0x1000200)]


def run_sweep(ci, lo, hi):
    mn, shape = SWEEP_CELLS[ci]
    viol = []
    outcomes = set()
    n = nt = 0
    for value in range(lo, hi):
        for suffix in SUFFIXES:
            if value > 0xFFFFFF and suffix in ("", ".l"):
                continue  # no width holds it / .l of more than 24 bits: no claim
            src = f"{mn}{suffix} {isa.render_operand(shape, hexlit(value, False))}"
            out = impl.assemble(src)
            n += 1
            t, tag = judge(mn, shape, suffix, value, src, out, viol)
            nt += t
            outcomes.add("sweep-" + tag)
        if len(viol) > 40:
            break
    return {"evals": n, "nt_count": nt, "outcome": sorted(outcomes), "violations": viol[:40]}


def describe(case, res):
    d = {"case": list(case), "outcome": res.get("outcome")}
    if res.get("example"):
        d["example"] = res["example"]
    return d


def hexlit(v, upper):
    s = f"{v:x}"
    if len(s) % 2:
        s = "0" + s
    return "0x" + (s.upper() if upper else s)


def judge(mn, shape, suffix, value, src, out, viol):
    """Returns (nontrivial, outcome-tag)."""
    width = SUFW[suffix] if suffix else isa.natural_width(value)
    sid = shape_id(shape)
    if mn in isa.BRANCHES:
        # displacement semantics belong to C05; here: never another instruction, never another length
        if out.accepted and suffix in (".w", ".l"):
            # the only operand of a relative branch is one displacement byte: a 2- or 3-byte form is not a 65c816 instruction
            viol.append({"key": f"isa:undefined-accepted:{mn}{suffix} (no such branch width)", "msg": f"`{src}` -> {out.brief()}"})
            return 1, "BRANCH-WIDTH-ACCEPTED"
        if out.accepted:
            data = b"".join(b for _, b in out.blocks)
            if shape != ("", "", "") or len(data) != 2 or data[0] != isa.BY_MNEMONIC[mn]["rel"]:
                viol.append({"key": f"isa:branch-misassembled:{mn} {sid}", "msg": f"`{src}` -> {out.brief()}"})
            return 1, "branch-accepted"
        return 0, "branch-rejected"
    op = isa.lookup(mn, shape, width) if (shape is None or width is not None) else None
    if shape is None and suffix:
        # implied + suffix: not 65c816 syntax, statement silent -> rejected, or exactly the implied opcode
        if out.accepted and (op is None or out.blocks != [(0, bytes([op]))]):
            viol.append({"key": f"isa:undefined-accepted:{mn}{suffix} implied", "msg": f"`{src}` -> {out.brief()}"})
        return 0, "implied-suffix"
    if op is None:
        if out.accepted:
            viol.append({"key": f"isa:undefined-accepted:{mn} {sid} w{width}",
                         "msg": f"`{src}` is not a 65c816 instruction but was assembled: {out.brief()}"})
            return 1, "UNDEFINED-ACCEPTED"
        if out.status == "timeout":
            viol.append({"key": "isa:timeout", "msg": f"`{src}` did not terminate"})
        return 0, "undefined-rejected"
    exp = bytes([op]) if shape is None else isa.encode(op, value, width)
    fits_l = not (width == 3 and value > 0xFFFFFF)
    if out.accepted:
        if out.blocks != [(0, exp)]:
            viol.append({"key": f"isa:wrong-bytes:{mn} {sid} w{width}",
                         "msg": f"`{src}` must encode as {exp.hex()} but gave {out.brief()}"})
            return 1, "WRONG-BYTES"
        return 1, "defined-accepted"
    if (mn, sid, width) in supported() and fits_l:
        viol.append({"key": f"isa:supported-rejected:{mn} {sid} w{width}",
                     "msg": f"`{src}` is in the supported set (must encode as {exp.hex()}) but was rejected: {out.brief()}"})
        return 1, "SUPPORTED-REJECTED"
    return 1, "defined-unsupported-rejected"


def run_lit(mn, style, tier, collect=None):
    upper = style == "upper"
    vals = VALUES_T if tier == "thorough" else VALUES_Q
    viol = []
    outcomes = set()
    n = nt = 0
    example = None
    m = mn.upper() if upper else mn
    for shape in isa.ALL_SHAPES:
        for suffix in SUFFIXES:
            sfx = suffix.upper() if upper else suffix
            big = VALUES_BIG if (shape is not None and suffix in (".b", ".w", "")) else []
            for value in ((vals + big) if shape is not None else [None]):
                if shape is None:
                    src = f"{m}{sfx}"
                else:
                    src = f"{m}{sfx} {isa.render_operand(shape, hexlit(value, upper), upper_index=upper)}"
                out = impl.assemble(src)
                n += 1
                t, tag = judge(mn, shape, suffix, value if value is not None else 0, src, out, viol)
                nt += t
                outcomes.add(tag)
                if collect is not None and tag == "defined-accepted" or (collect is not None and tag == "WRONG-BYTES"):
                    width = SUFW[suffix] if suffix else isa.natural_width(value or 0)
                    if shape is not None and (width != 3 or (value or 0) <= 0xFFFFFF):
                        collect.add((mn, shape_id(shape), width))
                    elif shape is None and not suffix:
                        collect.add((mn, "implied", None))
                if example is None and tag == "defined-accepted":
                    example = {"source": src, "blocks": out.brief()}
    for tmpl in MALFORMED:
        for value in (0x12, 0x1234):
            src = f"{m} {tmpl.format(v=hexlit(value, upper))}"
            out = impl.assemble(src)
            n += 1
            if out.accepted:
                viol.append({"key": f"isa:malformed-operand-accepted:{mn} {tmpl.format(v='v')}",
                             "msg": f"`{src}` has unbalanced / mismatched brackets but was assembled: {out.brief()}"})
                outcomes.add("MALFORMED-ACCEPTED")
            elif out.status == "timeout":
                viol.append({"key": "isa:timeout", "msg": f"`{src}` did not terminate"})
            else:
                outcomes.add("malformed-rejected")
    return {"evals": n, "nt_count": nt, "outcome": sorted(outcomes), "violations": viol[:40], "example": example}


EXPR_FORMS = [
    ("sum", lambda v, w: f"{hexlit(v - 2, False)}+0x02" if v >= 2 else None),
    ("shift", lambda v, w: f"{hexlit(v >> 1, False)}<<1" if v % 2 == 0 else None),
    ("zero-padded", lambda v, w: "0x" + f"{v:x}".rjust(2 * w + 2, "0")),
    ("spaces", lambda v, w: f"{hexlit(v - 2, False)} + 0x02" if v >= 2 else None),
    ("decimal", lambda v, w: str(v)),
    ("binary", lambda v, w: bin(v)),
    ("mask", lambda v, w: f"{hexlit(v, False)}&0xffffff"),
    ("paren-first", lambda v, w: f"({hexlit(v - 2, False)})+0x02" if v >= 2 else None),
    ("paren-last", lambda v, w: f"0x02+({hexlit(v - 2, False)})" if v >= 2 else None),
    ("paren-all", lambda v, w: f"({hexlit(v - 2, False)}+0x02)" if v >= 2 else None),
    ("negative", lambda v, w: f"0-{256 ** w - v}" if w < 3 and v > 0 else None),        # explicit suffix only: two's complement truncation
    ("negative-unary", lambda v, w: f"-{256 ** w - v}" if w < 3 and v > 0 else None),
    ("constant", None),
    # an `=` symbol (defined by the symbol pass): the assembler may refuse to infer a width from it, but if it assembles the
    # instruction, the width is the natural width of the value
    ("eq-symbol", "eqsym"),
    # the same instruction assembled in the bank its operand points to: the encoding does not depend on where the code stands
    ("origin-in-the-operand's-bank", "origin"),
    # constants spelled like register names are ordinary symbols in operand position
    ("constant-named-a", "name:a"), ("constant-named-A", "name:A"), ("constant-named-x", "name:x"), ("constant-named-y", "name:y"),
    ("constant-named-s", "name:s"),
    ("macro-twice", "macro"),
    ("after-rep", "prefix:rep #0x30\nlda.w #0x0010\nldx.w #0x0010\nrts\n:c230a91000a2100060"),
    ("after-sep", "prefix:sep #0x30\nlda.b #0x10\nrts\n:e230a91060"),
    ("after-rep-a", "prefix:rep #0x20\n:c220"),
]
EXPR_VALUES = {1: [0x12, 0xFE], 2: [0x1234, 0x0100], 3: [0x123456, 0x010000]}


def run_expr(mn, tier):
    viol = []
    outcomes = set()
    n = nt = 0
    example = None
    for (smn, sid, width) in sorted(supported(), key=lambda t: (t[0], t[1], t[2] or 0)):
        if smn != mn or sid == "implied":
            continue
        shape = next(s for s in isa.ALL_SHAPES if s is not None and shape_id(s) == sid)
        for value in EXPR_VALUES[width]:
            for fname, form in EXPR_FORMS:
                pre = ""
                if form == "macro":
                    # the same macro body expanded twice with arguments of different width classes
                    other = next(((w2, EXPR_VALUES[w2][0]) for w2 in (1, 2, 3)
                                  if w2 != width and (mn, sid, w2) in supported()), None)
                    if other is None:
                        continue
                    src = (f".macro mm(vv) {{\n{mn} {isa.render_operand(shape, 'vv')}\n}}\nmm({hexlit(other[1], False)})\n"
                           f"mm({hexlit(value, False)})\n")
                    out = impl.assemble(src)
                    n += 1
                    nt += 1
                    exp = (isa.encode(isa.lookup(mn, shape, other[0]), other[1], other[0]) +
                           isa.encode(isa.lookup(mn, shape, width), value, width))
                    if not out.accepted or out.blocks != [(0, exp)]:
                        viol.append({"key": f"isa:wrong-bytes:{mn} {sid} w{width} form=macro-twice",
                                     "msg": f"`{src.replace(chr(10), ' / ')}` must encode as {exp.hex()} but gave {out.brief()}"})
                        outcomes.add("expr-MACRO-TWICE-WRONG")
                    else:
                        outcomes.add("expr-macro-twice-ok")
                    continue
                if isinstance(form, str) and form.startswith("prefix:"):
                    # the same instruction after other instructions: encoding must not depend on what precedes it
                    _, ptxt, phex = form.split(":")
                    text = hexlit(value, False)
                    src = f"{ptxt}{mn} {isa.render_operand(shape, text)}\n"
                    out = impl.assemble(src)
                    n += 1
                    nt += 1
                    exp = bytes.fromhex(phex) + isa.encode(isa.lookup(mn, shape, width), value, width)
                    if not out.accepted or out.blocks != [(0, exp)]:
                        viol.append({"key": f"isa:wrong-bytes:{mn} {sid} w{width} form={fname}",
                                     "msg": f"`{src.replace(chr(10), ' / ')}` must encode as {exp.hex()} but gave {out.brief()}"})
                        outcomes.add("expr-AFTER-PREFIX-WRONG")
                    else:
                        outcomes.add("expr-after-prefix-ok")
                    continue
                if form in ("eqsym", "origin"):
                    if form == "origin" and not (width == 3 and shape[0] in ("", "(", "[")):
                        continue
                    from mc.ref import bus as _refbus
                    for suffix in ("", {1: ".b", 2: ".w", 3: ".l"}[width]):
                        if form == "eqsym":
                            src = f"kk = {hexlit(value, False)}\n{mn}{suffix} {isa.render_operand(shape, 'kk')}"
                            at = 0
                        else:
                            org = (value & 0xFF0000) | 0x8000
                            src = f"*=0x{org:06x}\n{mn}{suffix} {isa.render_operand(shape, hexlit(value, False))}"
                            at = _refbus.lorom().phys(org)
                            if suffix:
                                # and the .l form with an operand of 16 bits, assembled in bank 02: the bank byte is the operand's (00)
                                small = value & 0xFFFF
                                src2 = f"*=0x028000\n{mn}.l {isa.render_operand(shape, hexlit(small, False))}"
                                out2 = impl.assemble(src2, rom="low_rom")
                                n += 1
                                exp2 = isa.encode(isa.lookup(mn, shape, 3), small, 3)
                                if not out2.accepted or out2.blocks != [(_refbus.lorom().phys(0x028000), exp2)]:
                                    viol.append({"key": f"isa:wrong-bytes:{mn} {sid} w3 form=long-form-of-a-16-bit-operand-in-another-bank",
                                                 "msg": f"`{src2.replace(chr(10), ' / ')}` must encode as {exp2.hex()} but gave {out2.brief()}"})
                        out = impl.assemble(src, rom="low_rom")
                        n += 1
                        nt += 1
                        exp = isa.encode(isa.lookup(mn, shape, width), value, width)
                        if out.accepted and out.blocks != [(at, exp)]:
                            viol.append({"key": f"isa:wrong-bytes:{mn} {sid} w{width} form={fname}",
                                         "msg": f"`{src.replace(chr(10), ' / ')}` must encode as {exp.hex()} at {at:#x} but gave {out.brief()}"})
                            outcomes.add("expr-WRONG-BYTES")
                        elif not out.accepted and (form == "origin" or suffix):
                            viol.append({"key": f"isa:supported-rejected:{mn} {sid} w{width} form={fname}",
                                         "msg": f"`{src.replace(chr(10), ' / ')}` must encode as {exp.hex()} but was rejected: {out.brief()}"})
                            outcomes.add("expr-SUPPORTED-REJECTED")
                        else:
                            outcomes.add("expr-" + ("defined-accepted" if out.accepted else "inferred-from-eq-rejected"))
                    continue
                if form is None or (isinstance(form, str) and form.startswith("name:")):
                    text = "kk" if form is None else form[5:]
                    pre = f"{text} := {hexlit(value, False)}\n"
                else:
                    text = form(value, width)
                    if text is None:
                        continue
                if shape[0] == "" and fname == "paren-all":
                    continue  # `mn (expr)` IS the indirect syntax, not a parenthesised direct operand
                for suffix in ("", {1: ".b", 2: ".w", 3: ".l"}[width]):
                    if fname.startswith("negative") and not suffix:
                        continue  # the width of a negative value without suffix is not specified
                    src = f"{pre}{mn}{suffix} {isa.render_operand(shape, text)}"
                    out = impl.assemble(src)
                    n += 1
                    t, tag = judge(mn, shape, suffix, value, src.replace("\n", " / "), out, viol)
                    if viol and viol[-1]["msg"].startswith("`" + src.replace("\n", " / ")):
                        viol[-1]["key"] += f" form={fname}"
                    nt += t
                    outcomes.add("expr-" + tag)
                    if example is None and tag == "defined-accepted" and pre:
                        example = {"source": src, "blocks": out.brief()}
    return {"evals": max(n, 1), "nt_count": nt, "outcome": sorted(outcomes) or ["expr-none"], "violations": viol[:40],
            "example": example}


def run_case(case):
    if case[0] == "sweep":
        return run_sweep(case[1], case[2], case[3])
    kind, mn, style, tier = case
    if kind == "lit":
        return run_lit(mn, style, tier)
    return run_expr(mn, tier)
