"""C07 - data directives emit the exact little-endian bytes of their values; .ascii; .incbin."""
from __future__ import annotations

import itertools

from mc import impl
from mc.ref import bus as refbus

ID = "C07"
LEVEL = "exploration"
LEVEL_TEXT = ("Complete enumeration of directive (.db/.dw/.dl/.pointer) x list length 1-3 x 25 value kinds per position "
              "(boundary, wider than the field, negative, backward/forward label, `=` symbol, `:=` constant), all .ascii strings "
              "<=3 over a 9-symbol alphabet (incl. the escaped quote and /* */ inside the string), lists of 4..300 values, complete value sweeps (every value in windows around 0, +-2^16, 2^24, 2^32; thorough: every value -0x20000..0x1FFFF and more, 1.2 million values per directive), and .incbin for every (length, placement, file name) of a boundary family "
              "including lengths that end just before/at/after a bank end, each program assembled by the real assembler and "
              "compared byte-for-byte, label-for-label with the packing model. Tests check one .dl, one .dw list and one .ascii.")
LEVEL_NOTE = ("Trusted: value mod 256^w little-endian; mc/ref/bus.py for offsets and the bank wrap of labels after a file. "
              "Only literal/symbolic values of the listed kinds; expressions are C06's business.")
TECHNIQUE = "exhaustive enumeration of directive x list x value kinds and file lengths x placements against a packing model"
RULE = ("case = (directive, list length, first value kind) or an .ascii / .incbin family; evaluations = programs assembled. "
        "non-trivial = some value needs truncation, is negative or symbolic, or the file crosses a bank end / has length 0; "
        "program texts are distinct by construction.")
ASSUMPTIONS = ["packing model in this file", "programs start with *= in ROM; labels read from Resolver.get_all_labels()"]

WIDTH = {".db": 1, ".dw": 2, ".dl": 3, ".pointer": 3}
ORG = 0x018000
KINDS = [("lit", v) for v in (0, 1, 0xFF, 0x100, 0xFFFF, 0x10000, 0xFFFFFF, 0x1000000, 0x12345678)] + \
        [("neg", v) for v in (1, 0x80, 0x8000, 0x800000)] + [("back",), ("fwd",), ("eqsym",), ("const",), ("shl",), ("she",)] + \
        [("expr", t) for t in ("back&0xffffff", "fwd>>8", "back<<1", "fwd*2", "back-1", "back+kc&0xff00")]
# shl / she: a name that is a `:=` constant in the outer scope and a label / `=` symbol (defined after the directive)
# in the block that contains the directive - the inner definition is the one the data must use
KC, KE = 0x123456, 0x654321


def bound(tier):
    return ("4 directives x lists of length 1..3 over 19 value kinds (17+289+4913 lists each); 259 .ascii strings; .incbin: 9 lengths "
            "x 2 placements x 2 file names x 2 buses, .incbin from sources named with a directory part and inside loop / block / macro bodies, each file also rewritten with new content of the same length and re-assembled; lists of 4..300 values x 4 directives; each directive inside 9 kinds of container x 6 value kinds; 14 edge-case .ascii texts x 4 placements; every value of " + ("-0x20000..0x1FFFF, +-(0xFF0000..0x100FFFF) and 0xFFFF0000..0x10000FFFF" if tier == "thorough" else "-0x300..0x2FF and 0x200-wide windows around +-2^16, 2^24, 2^32") + " x 4 directives" + ("; plus every file length 0..300 at the bank end" if tier == "thorough" else ""))


def cases(tier, seed):
    for d in WIDTH:
        for n in ((1, 2, 3, 4) if tier == "thorough" else (1, 2, 3)):
            for k0 in range(len(KINDS)):
                yield ("data", d, n, k0)
    yield ("ascii",)
    yield ("ascii-edge",)
    for d in WIDTH:
        yield ("contexts", d)
    for d in WIDTH:
        yield ("long-list", d)
    for busname in ("low_rom", "high_rom"):
        for place in ("start", "near-end"):
            for fname in ("d.bin", "sub/d.x.bin"):
                yield ("incbin", busname, place, fname, tier)
    yield ("incbin-contexts",)
    # value sweeps: EVERY value of a range, 64 values per directive line, positive and negative
    for d in WIDTH:
        for lo, hi in sweep_ranges(tier):
            for a in range(lo, hi, 0x4000):
                yield ("sweep", d, a, min(a + 0x4000, hi))


def describe(case, res):
    d = {"case": list(case), "outcome": res.get("outcome")}
    if res.get("example"):
        d["example"] = res["example"]
    return d


def render(kind):
    if kind[0] == "expr":
        return kind[1]
    if kind[0] == "lit":
        return hex(kind[1])
    if kind[0] == "neg":
        return "-" + hex(kind[1])
    return {"back": "back", "fwd": "fwd", "eqsym": "ke", "const": "kc", "shl": "shl", "she": "she"}[kind[0]]


def value_of(kind, env):
    if kind[0] == "expr":
        # conventional precedence (C06): * then + - then << >> then & ; Python's agrees for these operators
        return eval(kind[1], {"__builtins__": {}}, {"back": env["back"], "fwd": env["fwd"], "kc": env["const"]})  # noqa: S307
    if kind[0] == "lit":
        return kind[1]
    if kind[0] == "neg":
        return -kind[1]
    return env[kind[0]]


def run_data(d, n, k0):
    w = WIDTH[d]
    viol = []
    evals = nt = 0
    outcomes = set()
    example = None
    ref = refbus.lorom()
    for rest in itertools.product(range(len(KINDS)), repeat=n - 1):
        kinds = [KINDS[k0]] + [KINDS[i] for i in rest]
        shl = ORG + 1 + n * w
        after = shl + 1
        env = {"back": ORG, "fwd": after + 4, "eqsym": KE, "const": KC, "shl": shl, "she": 0x77}
        src = (f"*=0x{ORG:06x}\nkc := 0x{KC:x}\nke = 0x{KE:x}\nshl := 0x1234\nshe := 0x4321\nback:\n.db 0x11\n{{\n{d} " +
               ", ".join(render(k) for k in kinds) + "\nshl:\n.db 0x33\nshe = 0x77\n}\nafter:\n.dw 0xEEDD, 0xBB01\nfwd:\n.db 0x22\n")
        data = b"".join((value_of(k, env) % (256 ** w)).to_bytes(w, "little") for k in kinds)
        exp_block = b"\x11" + data + b"\x33" + bytes.fromhex("ddee01bb22")
        out = impl.assemble(src, rom="low_rom")
        evals += 1
        if any(k[0] != "lit" or k[1] >= 256 ** w for k in kinds):
            nt += 1
        if not out.accepted:
            viol.append({"key": f"data:rejected:{d}:{'/'.join(sorted({k[0] for k in kinds}))}",
                         "msg": f"valid data directive rejected: {out.brief()} :: {src!r}"})
            outcomes.add("REJECTED")
            continue
        if out.blocks != [(ref.phys(ORG), exp_block)]:
            viol.append({"key": f"data:wrong-bytes:{d}",
                         "msg": f"expected {exp_block.hex()} at {ref.phys(ORG):#x}, got {out.brief()} :: {src!r}"})
            outcomes.add("WRONG-BYTES")
            continue
        labels = dict(out.labels)
        if labels.get("back") != ORG or labels.get("after") != after or labels.get("fwd") != after + 4:
            viol.append({"key": f"data:wrong-layout:{d}", "msg": f"labels {labels} expected after={after:#x} :: {src!r}"})
            outcomes.add("WRONG-LAYOUT")
            continue
        if out.symbols.get("ke") != KE or out.symbols.get("kc") != KC:
            viol.append({"key": "data:symbol-values", "msg": f"symbols {out.symbols}"})
        outcomes.add("ok")
        if example is None and nt:
            example = {"source": src, "blocks": out.brief()}
    return {"evals": evals, "nt_count": nt, "outcome": sorted(outcomes), "violations": viol[:10], "example": example}


def run_ascii():
    # the escaped quote (backslash + quote) is kept verbatim; comment delimiters inside a string are ordinary text
    alphabet = ["a", "Z", "0", " ", "~", ";", "\\'", "/*", "*/"]
    viol = []
    evals = 0
    ref = refbus.lorom()
    example = None
    for n in range(0, 4):
        for tup in itertools.product(alphabet, repeat=n):
            s = "".join(tup)
            src = f"*=0x{ORG:06x}\n.ascii '{s}'\nafter:\n.dw 0xEEDD\n"
            out = impl.assemble(src, rom="low_rom")
            evals += 1
            exp = s.encode("ascii") + b"\xdd\xee"
            if not out.accepted:
                viol.append({"key": "ascii:rejected", "msg": f"{out.brief()} :: {src!r}"})
            elif out.blocks != [(ref.phys(ORG), exp)] or dict(out.labels).get("after") != ORG + len(s):
                viol.append({"key": "ascii:wrong-bytes-or-layout", "msg": f"expected {exp.hex()} after={ORG + len(s):#x}; got {out.brief()} {out.labels} :: {src!r}"})
            elif example is None and n == 3:
                example = {"source": src, "blocks": out.brief()}
    return {"evals": evals, "nt_count": evals - 1, "outcome": "ascii-ok" if not viol else "ASCII-VIOLATION", "violations": viol[:10],
            "example": example}


def pattern(n):
    return bytes(((i * 7 + 3) ^ (i >> 8)) & 0xFF for i in range(n))


def run_incbin(busname, place, fname, tier):
    ref = refbus.BUILTIN[busname]()
    bank = 0x01 if busname == "low_rom" else 0x41
    r0 = ref.rng(bank << 16)
    wlo, whi = r0.win_lo, r0.win_lo + r0.size
    start = (bank << 16) + (wlo + 4 if place == "start" else whi - 0x20)
    room = ((bank << 16) + whi) - (start + 6)  # bytes left in the bank at the .incbin position (after the 6-byte .dl pair)
    lengths = {0, 1, 2, 255, 256}
    if place == "near-end":
        lengths |= {room - 1, room, room + 1, room + r0.size}
        if tier == "thorough":
            lengths |= set(range(0, 301))
    sym = fname.replace("/", "_").replace(".", "_")
    viol = []
    evals = nt = 0
    outcomes = set()
    example = None
    for ln in sorted(lengths):
        content = pattern(ln)
        src = (f"*=0x{start:06x}\n.dl {sym}, {sym}__size\n.incbin '{fname}'\nafter:\n.dw 0xEEDD, 0xBB07\n.dl {sym}, {sym}__size\n")
        out = impl.assemble(src, rom=busname, files={fname: content})
        evals += 1
        fstart = ref.advance(start, 6)
        after = ref.advance(fstart, ln)
        crossing = (after >> 16) != (fstart >> 16)
        if crossing or ln == 0:
            nt += 1
        refs = fstart.to_bytes(3, "little") + (ln & 0xFFFFFF).to_bytes(3, "little")
        exp = refs + content + bytes.fromhex("ddee07bb") + refs
        if not out.accepted:
            viol.append({"key": "incbin:rejected", "msg": f"{busname} len={ln}: {out.brief()} :: {src!r}"})
            outcomes.add("REJECTED")
            continue
        if out.blocks != [(ref.phys(start), exp)]:
            got = b"".join(b for _, b in out.blocks)
            where = next((i for i, (x, y) in enumerate(zip(got, exp)) if x != y), min(len(got), len(exp)))
            viol.append({"key": "incbin:wrong-bytes", "msg": f"{busname} {place} len={ln}: output differs from expected at byte {where} "
                         f"(got {len(got)} bytes at {[hex(a) for a, _ in out.blocks]}, expected {len(exp)} at {ref.phys(start):#x}) :: {src!r}"})
            outcomes.add("WRONG-BYTES")
            continue
        labels = dict(out.labels)
        if labels.get(sym) != fstart or labels.get("after") != after:
            viol.append({"key": "incbin:wrong-symbols", "msg": f"{busname} len={ln}: labels {labels}, expected {sym}={fstart:#x} after={after:#x}"})
            outcomes.add("WRONG-SYMBOLS")
            continue
        if ln:
            # the same file name, same length, NEW content, assembled again at once in this process: the new bytes count
            content2 = bytes(b ^ 0xFF for b in content)
            out2 = impl.assemble(src, rom=busname, files={fname: content2})
            evals += 1
            exp2 = refs + content2 + bytes.fromhex("ddee07bb") + refs
            if not out2.accepted or out2.blocks != [(ref.phys(start), exp2)]:
                viol.append({"key": "incbin:stale-file-content", "msg": f"{busname} len={ln}: after rewriting {fname} with new bytes of the same length the output is "
                             f"{'unchanged (old bytes)' if out2.blocks == out.blocks else out2.brief()[:80]}"})
                outcomes.add("STALE-CONTENT")
                continue
        outcomes.add("ok-crossing" if crossing else "ok")
        if example is None and crossing:
            example = {"source": src, "file_length": ln, "labels": {k: hex(v) for k, v in labels.items()}}
    return {"evals": evals, "nt_count": nt, "outcome": sorted(outcomes), "violations": viol[:10], "example": example}


def run_contexts(d):
    """The directive inside every kind of container: same packing, labels after it still follow."""
    w = WIDTH[d]
    ref = refbus.lorom()
    viol = []
    evals = 0
    vals = {"0x12345678": 0x12345678, "-2": -2, "back": ORG, "fwd": None, "kc": KC, "kc+back": KC + ORG}
    wrappers = {
        "block": ("{\n%s\n}\n", 1), "scope": (".scope ns {\n%s\n}\n", 1), "macro": (".macro mw() {\n%s\n}\nmw()\n", 1),
        "macro-twice": (".macro mw() {\n%s\n}\nmw()\nmw()\n", 2), "for": (".for i := 0, 2 {\n%s\n}\n", 2), "if": (".if kc {\n%s\n}\n", 1),
        "if-else": (".if 0 {\n.db 0xEE\n} else {\n%s\n}\n", 1), "include": (".include 'dinc.s'\n", 1), "nested": ("{\n.scope n2 {\n.for j := 0, 1 {\n%s\n}\n}\n}\n", 1),
    }
    for wname, (tmpl, times) in wrappers.items():
        for vtext in vals:
            line = f"{d} {vtext}, 1"
            body = tmpl % line if "%s" in tmpl else tmpl
            files = {"dinc.s": line + "\n"}
            n_after = ORG + 1 + times * 2 * w
            env = dict(vals, fwd=n_after + 2)
            v = env[vtext]
            src = f"kc := 0x{KC:x}\n*=0x{ORG:06x}\nback:\n.db 0x11\n{body}after:\n.dw 0xEEDD\nfwd:\n.db 0x22\n"
            one = (v % (256 ** w)).to_bytes(w, "little") + (1).to_bytes(w, "little")
            exp = b"\x11" + one * times + b"\xdd\xee\x22"
            out = impl.assemble(src, rom="low_rom", files=files)
            evals += 1
            if not out.accepted:
                viol.append({"key": f"data:rejected:{d}:in-{wname}", "msg": f"{out.brief()} :: {src!r}"})
            elif out.blocks != [(ref.phys(ORG), exp)]:
                viol.append({"key": f"data:wrong-bytes:{d}:in-{wname}", "msg": f"expected {exp.hex()} got {out.brief()} :: {src!r}"})
            elif dict(out.labels).get("after") != n_after:
                viol.append({"key": f"data:wrong-layout:{d}:in-{wname}", "msg": f"after={dict(out.labels).get('after')} expected {n_after:#x} :: {src!r}"})
    return {"evals": evals, "nt_count": evals, "outcome": "contexts-ok" if not viol else "CONTEXT-VIOLATION", "violations": viol[:8]}


def run_ascii_edge():
    """Empty, long, punctuation-only and non-ASCII strings; several .ascii in a row; .ascii inside containers."""
    ref = refbus.lorom()
    viol = []
    evals = 0
    texts = ["", "a" * 300, " !#$%&()*+,-./:;<=>?@[]^_`{|}~", "0123456789", "x" * 255 + "y", "tab\there", "caf\u00e9", "{{a}}", ".db 1", "a = 1",
             "*=0x8000", "/* c */", "; c", "a\\\\b",
             # text that looks like the escapes of OTHER directives (.text's [0xNN], splices, macro calls): plain characters here
             'size 5"; wide', 'say "hi" twice', '"', 'a"',
             "HP[0x30]", "[0x41][0x42]", "x[0x7f", "{{blk}}", "mm(1)", "[0xZZ]", "100%", "a\\nb"]
    for t in texts:
        for tmpl in (".ascii '%s'\n", "{\n.ascii '%s'\n}\n", ".ascii '%s'\n.ascii '%s'\n", ".macro ma() {\n.ascii '%s'\n}\nma()\n"):
            n = tmpl.count("%s")
            src = f"*=0x{ORG:06x}\n" + (tmpl % ((t,) * n)) + "after:\n.dw 0xEEDD\n"
            data = t.encode("ascii", errors="ignore") * n
            out = impl.assemble(src, rom="low_rom")
            evals += 1
            if not out.accepted:
                viol.append({"key": "ascii:rejected", "msg": f"{out.brief()} :: {src[:120]!r}"})
            elif out.blocks != [(ref.phys(ORG), data + b"\xdd\xee")] or dict(out.labels).get("after") != ORG + len(data):
                viol.append({"key": "ascii:wrong-bytes-or-layout", "msg": f"text {t[:40]!r} x{n}: got {out.brief()[:120]} after={dict(out.labels).get('after')}"})
    return {"evals": evals, "nt_count": evals, "outcome": "ascii-edge-ok" if not viol else "ASCII-EDGE-VIOLATION", "violations": viol[:8]}


def run_long_list(d):
    """Lists of 4..300 values: every element packed to exactly its width, in order, whatever the list length."""
    w = WIDTH[d]
    ref = refbus.lorom()
    viol = []
    evals = 0
    for n in (4, 7, 8, 15, 16, 17, 31, 32, 33, 64, 100, 255, 256, 300):
        vals = [((i * 0x01010101) ^ (i << 3) ^ 0x00A5C3) & 0xFFFFFFFF if i % 5 else -(i + 1) for i in range(n)]
        for per_line in (n, 8):
            lines = []
            for k in range(0, n, per_line):
                lines.append(f"{d} " + ", ".join(hex(v) if v >= 0 else "-" + hex(-v) for v in vals[k:k + per_line]))
            # a long block followed by a SHORTER block elsewhere (each block carries exactly its own bytes)
            src = f"*=0x{ORG:06x}\n" + "\n".join(lines) + f"\nafter:\n.dw 0xEEDD\n*=0x{ORG + 0x4000:06x}\n{d} 7\n*=0x{ORG + 0x5000:06x}\n.db 9\n"
            exp = b"".join((v % (256 ** w)).to_bytes(w, "little") for v in vals) + b"\xdd\xee"
            out = impl.assemble(src, rom="low_rom")
            evals += 1
            tail = [(ref.phys(ORG + 0x4000), (7).to_bytes(w, "little")), (ref.phys(ORG + 0x5000), b"\x09")]
            if not out.accepted:
                viol.append({"key": f"data:rejected:{d}:long-list", "msg": f"{n} values: {out.brief()}"})
            elif out.blocks[1:] != tail:
                viol.append({"key": f"data:wrong-bytes:{d}:short-block-after-long-block", "msg": f"{n} values: later blocks {[(hex(a), b.hex()) for a, b in out.blocks[1:]]}"})
            elif out.blocks[:1] != [(ref.phys(ORG), exp)] or dict(out.labels).get("after") != ORG + n * w:
                got = b"".join(b for _, b in out.blocks)
                where = next((i for i, (x, y) in enumerate(zip(got, exp)) if x != y), min(len(got), len(exp)))
                viol.append({"key": f"data:wrong-bytes:{d}:long-list",
                             "msg": f"{d} list of {n} values ({per_line} per line): output differs at byte {where} (got {len(got)} bytes, expected {len(exp)}); after={dict(out.labels).get('after')}"})
    return {"evals": evals, "nt_count": evals, "outcome": "long-lists-ok" if not viol else "LONG-LIST-VIOLATION", "violations": viol[:6]}


def run_incbin_contexts():
    """(a) the main source is named with a directory part and a same-named file sits next to it: relative paths are relative
    to the working directory, as for every other file; (b) .incbin inside a loop body / block / macro body / named scope:
    each copy's start symbol and size belong to that expansion."""
    ref = refbus.lorom()
    viol = []
    evals = 0
    outcomes = set()
    a_, b_ = bytes([0xA1, 0xA2, 0xA3]), bytes([0xB1, 0xB2, 0xB3, 0xB4, 0xB5])
    src = f"*=0x{ORG:06x}\n.incbin 'd.bin'\n.dl d_bin, d_bin__size\n"
    for fname in ("m.s", "src/m.s", "src/sub/m.s", "./src/m.s"):
        out = impl.assemble(src, rom="low_rom", filename=fname, files={"d.bin": a_, "src/d.bin": b_, "src/sub/d.bin": b_})
        evals += 1
        exp = a_ + ORG.to_bytes(3, "little") + (3).to_bytes(3, "little")
        if not out.accepted or out.blocks != [(ref.phys(ORG), exp)]:
            viol.append({"key": "incbin:wrong-file-for-a-source-in-a-directory", "msg": f"source named {fname!r}: expected {exp.hex()} got {out.brief()}"})
            outcomes.add("WRONG-FILE")
        else:
            outcomes.add("ok-dir")
    # the four directives pack the same bytes under every mapping (incl. low2 and high)
    for rom, org in (("low_rom_2", 0x818000), ("high_rom", 0xC18000), ("low_rom", 0x818000)):
        rb = refbus.BUILTIN["low_rom" if rom == "low_rom_2" else rom]()
        for d, w in WIDTH.items():
            vals = [0x02ABCD, 0x8000, 0x12FFFF, 0x7F, 0x808080, 0x018000]
            srcm = f"*=0x{org:06x}\n{d} " + ", ".join(hex(v) for v in vals) + "\n"
            expm = b"".join((v % (256 ** w)).to_bytes(w, "little") for v in vals)
            outm = impl.assemble(srcm, rom=rom)
            evals += 1
            if not outm.accepted or outm.blocks != [(rb.phys(org), expm)]:
                viol.append({"key": f"data:wrong-bytes:{d}:mapping-{rom}", "msg": f"expected {expm.hex()} got {outm.brief()} :: {srcm!r}"})
                outcomes.add("WRONG-UNDER-" + rom)
    wraps = {
        "for": (".for qi := 0, 3 {{\n{body}}}\n", 3), "block": ("{{\n{body}}}\n{{\n{body}}}\n", 2),
        "macro": (".macro mi() {{\n{body}}}\nmi()\nmi()\n", 2), "for-in-for": (".for qi := 0, 2 {{\n.for qj := 0, 2 {{\n{body}}}\n}}\n", 4),
        "for-after-plain": (".incbin 'd.bin'\n.for qi := 0, 2 {{\n{body}}}\n.dl d_bin\n", 2),
    }
    body = ".incbin 'd.bin'\n.dl d_bin\n.db d_bin__size\n"
    for wname, (tmpl, copies) in wraps.items():
        src2 = f"*=0x{ORG:06x}\n" + (tmpl.format(body=body) if wname.startswith("macro") is False else tmpl.format(body=body).replace("*=", "*="))
        if wname == "macro":
            src2 = tmpl.format(body=body).replace("mi()\nmi()\n", f"*=0x{ORG:06x}\nmi()\nmi()\n")
        out = impl.assemble(src2, rom="low_rom", files={"d.bin": a_})
        evals += 1
        exp = b""
        pos = ORG
        first = None
        if wname == "for-after-plain":
            first = pos
            exp += a_
            pos += 3
        for _ in range(copies):
            exp += a_ + pos.to_bytes(3, "little") + b"\x03"
            pos += 7
        if wname == "for-after-plain":
            exp += first.to_bytes(3, "little")
        if not out.accepted or out.blocks != [(ref.phys(ORG), exp)]:
            viol.append({"key": f"incbin:wrong-symbols-in-{wname}", "msg": f"expected {exp.hex()} got {out.brief()} :: {src2!r}"})
            outcomes.add("WRONG-IN-" + wname)
        else:
            outcomes.add("ok-" + wname)
    return {"evals": evals, "nt_count": evals, "outcome": sorted(outcomes), "violations": viol[:10]}


def sweep_ranges(tier):
    if tier == "thorough":
        return [(-0x20000, 0x20000), (0xFF0000, 0x1010000), (-0x1010000, -0xFF0000), (0xFFFF0000, 0x100010000)]
    return [(-0x300, 0x300), (0xFE00, 0x10200), (-0x10200, -0xFE00), (0xFFFE00, 0x1000200), (0xFFFFFE00, 0x100000200)]


def run_sweep(d, lo, hi):
    w = WIDTH[d]
    ref = refbus.lorom()
    viol = []
    evals = 0
    for a in range(lo, hi, 64):
        vals = list(range(a, min(a + 64, hi)))
        src = f"*=0x{ORG:06x}\n{d} " + ", ".join(hex(v) if v >= 0 else "-" + hex(-v) for v in vals) + "\nafter:\n.db 0x33\n"
        exp = b"".join((v % (256 ** w)).to_bytes(w, "little") for v in vals) + b"\x33"
        out = impl.assemble(src, rom="low_rom")
        evals += len(vals)
        if not out.accepted or out.blocks != [(ref.phys(ORG), exp)] or dict(out.labels).get("after") != ORG + len(exp) - 1:
            viol.append({"key": f"data:wrong-bytes:{d}:sweep", "msg": f"values {vals[0]:#x}..{vals[-1]:#x}: expected {exp[:12].hex()}... got {out.brief()[:160]}"})
            if len(viol) > 5:
                break
    return {"evals": evals, "nt_count": evals, "outcome": "sweep-ok" if not viol else "SWEEP-WRONG", "violations": viol}


def run_case(case):
    if case[0] == "sweep":
        return run_sweep(case[1], case[2], case[3])
    if case[0] == "incbin-contexts":
        return run_incbin_contexts()
    if case[0] == "contexts":
        return run_contexts(case[1])
    if case[0] == "ascii-edge":
        return run_ascii_edge()
    if case[0] == "long-list":
        return run_long_list(case[1])
    if case[0] == "data":
        return run_data(*case[1:])
    if case[0] == "ascii":
        return run_ascii()
    return run_incbin(*case[1:])
