"""C09 - macro application equals the body inlined with parameters bound at the call site."""
from __future__ import annotations

import itertools

from mc import impl
from mc.checks.common import compare
from mc.gen import render
from mc.ref import asm as refasm
from mc.ref import bus as refbus
from mc.ref import expr as rx

ID = "C09"
LEVEL = "model_checking"
LEVEL_TEXT = ("Explicit enumeration of macro bodies (every ordered selection of <=3 of 8 statement kinds: .db p, .dw q, lda.w p, local "
              "label + reference, nested call, width-inferred lda p, .if over a parameter, nested calls from a block / loop inside the body) x every pair of argument kinds (literal, := constant, backward "
              "label, forward label, a caller name spelled like the other parameter or like the parameter itself (the caller's constants are assigned again after the last application), a caller name spelled like the body's local "
              "label, constant expression) x caller label before/after x 1-3 applications, plus families for code-block arguments "
              "and splices, 0/1-parameter macros, terminated recursion, undefined macro and missing/surplus arguments. Each program "
              "is assembled by the real assembler and compared (a) with the reference expansion that binds arguments at the call "
              "site and (b) with its mechanically inlined twin run through the same assembler. Tests assemble two applications.")
LEVEL_NOTE = ("Trusted: mc/ref/asm.py (call-site binding, fresh scope per application) and the inliner in this file. Width-inferred "
              "operands over values unknown in the label pass are unspecified (the assembler may reject them). Surplus arguments "
              "are unspecified.")
TECHNIQUE = "explicit-state enumeration of macro bodies x arguments x applications; oracle = reference expansion + inlined twin"
RULE = ("state = (body, argument kinds, caller-label placement, number of applications); every combination is executed. non-trivial = "
        "at least one parameter is used by the body and its argument is not a plain literal. Programs are distinct by construction.")
ASSUMPTIONS = ["reference expansion in mc/ref/asm.py", "twin: t_i = <arg> outside, { p_i = t_i ... body } at the call site"]

N = rx.num
S = rx.sym
DIRECT = ("", "", "")
ORG = 0x018000

BODY_STMTS = {
    "db_pa": [("data", "db", [S("pa")])],
    "dw_pb": [("data", "dw", [S("pb")])],
    "ldaw_pa": [("ins", "lda", "w", DIRECT, S("pa"))],
    "local": [("label", "loc"), ("data", "dw", [S("loc")])],
    "nested": [("call", "nn", [("b", "+", S("pa"), N(1))])],
    "lda_pb": [("ins", "lda", "", DIRECT, S("pb"))],
    # the parameter used at expansion time from a scope NESTED in the body
    "nested_blk": [("block", [("call", "nn", [("b", "+", S("pa"), N(2))])]), ("for", "qf", N(0), N(1), [("call", "nn", [("b", "+", S("pa"), N(3))])])],
    "if_pb": [("if", ("b", "-", S("pb"), N(0x31)), [("data", "db", [N(0xA1)])], [("data", "db", [N(0xA2)])])],  # expansion-time use of a parameter
}
ARG_KINDS = ["lit", "const", "back", "fwd", "other-param", "same-param", "local-name", "const-expr"]


def arg_expr(kind, j, variant):
    """Argument expression for parameter j (0/1); variant shifts literal values between applications."""
    if kind == "lit":
        return N(0x21 + 0x10 * variant + j)
    if kind == "const":
        return S("kc")
    if kind == "back":
        return S("back")
    if kind == "fwd":
        return S("fwd")
    if kind == "other-param":
        return S("pb" if j == 0 else "pa")  # the caller's own pa / pb, NOT the macro's parameter
    if kind == "same-param":
        return S("pa" if j == 0 else "pb")  # the caller's constant spelled exactly like the parameter it is passed for
    if kind == "local-name":
        return S("loc")  # the caller's label `loc`, not the body's local label
    return ("b", "+", S("kc"), N(1 + variant))


def bound(tier):
    return (("2080" if tier == "thorough" else "400") + " bodies x 64 argument-kind pairs x 2 placements of the caller's label x 1..3 applications; + code-block/splice, "
            "0/1-parameter, recursion depth 0..6, undefined / too-few / surplus families")


_BODY_MAX = 3


def bodies():
    names = list(BODY_STMTS)
    out = []
    for k in range(1, _BODY_MAX + 1):
        for sel in itertools.permutations(names, k):
            out.append(sel)
    return out


def setup(tier, seed):
    global _BODY_MAX
    _BODY_MAX = 4 if tier == "thorough" else 3


def cases(tier, seed):
    setup(tier, seed)
    for sel in bodies():
        yield ("main", sel)
    yield ("special",)


def describe(case, res):
    d = {"case": list(case), "outcome": res.get("outcome")}
    if case[0] == "main":
        d["body"] = list(case[1])
    if res.get("example"):
        d["example"] = res["example"]
    return d


PRELUDE = [
    ("const", "kc", N(0x31)), ("const", "pa", N(0x5A)), ("const", "pb", N(0x5B)),
    ("macro", "nn", ["x"], [("data", "db", [S("x")])]),
    ("macro", "mrec", ["n"], [("if", S("n"), [("data", "db", [S("n")]), ("call", "mrec", [("b", "-", S("n"), N(1))])], None)]),
]


def program(body_sel, kinds, loc_pos, napps):
    body = []
    for b in body_sel:
        body += BODY_STMTS[b]
    prog = list(PRELUDE) + [("macro", "mm", ["pa", "pb"], body), ("org", N(ORG)), ("label", "back"), ("data", "db", [N(0xB0)])]
    if loc_pos == "before":
        prog += [("label", "loc"), ("data", "db", [N(0xC0)])]
    calls = []
    for a in range(napps):
        ks = kinds if a % 2 == 0 else (kinds[1], kinds[0])
        calls.append(("call", "mm", [arg_expr(ks[0], 0, a), arg_expr(ks[1], 1, a)]))
    prog.append(calls[0])
    prog.append(("data", "db", [N(0xD1)]))
    if napps >= 2:
        prog.append(calls[1])
    prog += [("label", "fwd"), ("data", "db", [N(0xF0)])]
    if loc_pos == "after":
        prog += [("label", "loc"), ("data", "db", [N(0xC1)])]
    if napps >= 3:
        prog.append(calls[2])
    # the caller's constants are assigned AGAIN after the last application: arguments were bound where the call stands
    prog += [("const", "pa", N(0x6A)), ("const", "pb", N(0x6B)), ("const", "kc", N(0x41))]
    return prog


def is_ct(e):
    """Argument is known at expansion time (literals and := constants kc/pa/pb only)."""
    return all(n in ("kc", "pa", "pb") for n in rx.names(e))


def inline_twin(prog):
    """Replace every top-level application of a macro by its body in a fresh block with parameters bound outside."""
    macros = {}
    out = []
    app = 0
    for st in prog:
        if st[0] == "macro":
            macros[st[1]] = (st[2], st[3])
            out.append(st)
        elif st[0] == "call" and st[1] in macros and len(st[2]) == len(macros[st[1]][0]):
            params, body = macros[st[1]]
            binds = []
            code = {}
            for j, (p, a) in enumerate(zip(params, st[2])):
                if isinstance(a, tuple) and a and a[0] == "code":
                    code[p] = a[1]
                    continue
                t = f"t{app}_{j}"
                kind = "const" if is_ct(a) else "eq"
                out.append((kind, t, a))
                binds.append((kind, p, S(t)))
            blk = []
            for b in body:
                if b[0] == "splice" and b[1] in code:
                    blk += code[b[1]]
                else:
                    blk.append(b)
            out.append(("block", binds + blk))
            for b in blk:
                if b[0] == "macro":
                    macros[b[1]] = (b[2], b[3])  # a definition made by the inlined body is in force afterwards
            app += 1
        else:
            out.append(st)
    return out


def check(prog, tag, viol, want_twin=True):
    bus = refbus.lorom()
    src = render.source(prog)
    v = refasm.RefAsm(bus).assemble(prog)
    out = impl.assemble(src, rom="low_rom")
    n = 1
    vs = compare(out, v, "macro", src)
    if vs:
        vs[0]["key"] += ":" + tag
        viol += vs
        return n, "VIOLATION"
    if want_twin and out.accepted:
        tw = inline_twin(prog)
        tsrc = render.source(tw)
        o2 = impl.assemble(tsrc, rom="low_rom")
        n += 1
        if o2.accepted:
            lab1 = sorted(x for x in out.labels)
            lab2 = sorted(x for x in o2.labels)
            if o2.blocks != out.blocks or lab1 != lab2:
                viol.append({"key": f"macro:differs-from-inlined-twin:{tag}",
                             "msg": f"program: {out.brief()} labels {lab1}; inlined twin: {o2.brief()} labels {lab2} :: {src!r} :: twin {tsrc!r}"})
                return n, "VIOLATION"
        # a twin that is rejected (e.g. width inferred from a `=` temp) gives no information
    return n, v.status


def run_main(sel):
    viol = []
    outcomes = set()
    evals = nt = states = 0
    example = None
    uses_pa = any(b in ("db_pa", "ldaw_pa", "nested", "nested_blk") for b in sel)
    uses_pb = any(b in ("dw_pb", "lda_pb", "if_pb") for b in sel)
    for k0, k1 in itertools.product(ARG_KINDS, repeat=2):
        for loc_pos in ("before", "after"):
            for napps in (1, 2, 3):
                prog = program(sel, (k0, k1), loc_pos, napps)
                tag = f"arg1={k0},arg2={k1}"
                n, status = check(prog, tag, viol)
                evals += n
                states += 1
                outcomes.add(status)
                if (uses_pa and k0 != "lit") or (uses_pb and k1 != "lit"):
                    nt += 1
                    if example is None and status == "ok" and napps == 2 and k0 != "lit" and k1 != "lit":
                        example = {"source": render.source(prog)}
        if len(viol) > 30:
            break
    return {"evals": evals, "nt_count": nt, "state_count": states, "transitions": states, "outcome": sorted(outcomes),
            "violations": viol[:30], "example": example, "depth": len(sel)}


def run_special():
    viol = []
    outcomes = set()
    evals = nt = states = 0
    base = list(PRELUDE)
    progs = []
    # code-block arguments and splices
    code = ("code", [("data", "db", [N(0x77)]), ("label", "cl"), ("data", "dw", [S("cl")])])
    for body in ([("splice", "pa")], [("data", "db", [S("pb")]), ("splice", "pa"), ("data", "db", [N(9)])],
                 [("splice", "pa"), ("data", "dw", [S("pb")])]):
        for k1 in ARG_KINDS:
            for napps in (1, 2):
                p = base + [("macro", "mc", ["pa", "pb"], body), ("org", N(ORG)), ("label", "back"), ("data", "db", [N(0xB0)]),
                            ("label", "loc"), ("data", "db", [N(0xC0)])]
                for a in range(napps):
                    p.append(("call", "mc", [code, arg_expr(k1, 1, a)]))
                p += [("label", "fwd"), ("data", "db", [N(0xF0)])]
                progs.append((p, f"code-arg,arg2={k1}", True))
    # the same block spliced TWICE by one body: each splice is a fresh expansion (own scopes, own expansion-time decisions)
    for ctag, cblock in (("call", [("call", "nn", [N(0x61)])]), ("block", [("block", [("label", "sl"), ("data", "dw", [S("sl")])])]),
                         ("if-over-acc", [("const", "acc2", ("b", "+", S("acc2"), N(1))), ("if", ("b", "-", S("acc2"), N(1)), [("data", "db", [N(0xBB)])], [("data", "db", [N(0xAA)])])]),
                         ("for", [("for", "qs", N(0), N(2), [("data", "db", [S("qs")])])])):
        p = base + [("const", "acc2", N(0)), ("macro", "twice", ["blk"], [("splice", "blk"), ("data", "db", [N(9)]), ("splice", "blk")]), ("org", N(ORG)),
                    ("call", "twice", [("code", cblock)]), ("call", "nn", [N(0x62)]), ("call", "twice", [("code", cblock)])]
        progs.append((p, f"block-spliced-twice-{ctag}", ctag != "if-over-acc"))
    # the body refers to a label that the spliced block defines (the block is expanded where it is spliced: same scope)
    code2 = ("code", [("label", "cl2"), ("data", "db", [N(0x66)])])
    for napps in (1, 2):
        p = base + [("macro", "mb", ["blk"], [("data", "db", [N(1)]), ("splice", "blk"), ("data", "dw", [S("cl2")])]),
                    ("org", N(ORG)), ("label", "back"), ("data", "db", [N(0xB0)])]
        for a in range(napps):
            p.append(("call", "mb", [code2]))
        progs.append((p, "code-arg-label-used-by-body", True))
    # a splice nested inside a block / loop / named scope / conditional of the body
    for wrap in ("block", "for", "scope", "if"):
        inner = [("splice", "blk"), ("data", "db", [N(2)])]
        w = {"block": ("block", inner), "for": ("for", "qs", N(0), N(2), inner), "scope": ("scope", "nsp", inner), "if": ("if", S("kc"), inner, None)}[wrap]
        p = base + [("macro", "ms2", ["blk"], [("data", "db", [N(1)]), w]), ("org", N(ORG)), ("call", "ms2", [("code", [("data", "db", [N(0x77)])])]),
                    ("call", "ms2", [("code", [("ins", "nop", "", None, None)])])]
        progs.append((p, f"splice-nested-in-{wrap}", wrap != "for"))
    # an undefined macro applied inside a taken .if branch (top level and inside a macro body) still fails
    progs.append((base + [("org", N(ORG)), ("if", S("kc"), [("data", "db", [N(1)]), ("call", "nosuch2", [N(1)])], [("data", "db", [N(2)])])], "undefined-macro-in-taken-if", False))
    progs.append((base + [("macro", "gate", ["g"], [("if", S("g"), [("call", "nosuch3", [])], None)]), ("org", N(ORG)), ("call", "gate", [N(1)])], "undefined-macro-in-taken-if", False))
    # splice of a non-code parameter / undefined name must fail
    progs.append((base + [("macro", "ms", ["pa"], [("splice", "pa")]), ("org", N(ORG)), ("call", "ms", [N(1)])], "splice-of-value", False))
    # 0 and 1 parameter macros
    for k0 in ARG_KINDS:
        if k0 == "other-param":
            continue
        for napps in (1, 2, 3):
            p = base + [("macro", "m1", ["pa"], [("data", "db", [S("pa")]), ("label", "loc"), ("data", "dw", [S("loc")]), ("data", "dl", [S("pa")])]),
                        ("macro", "m0", [], [("label", "loc"), ("data", "dw", [S("loc")]), ("data", "db", [S("kc")])]),
                        ("org", N(ORG)), ("label", "back"), ("data", "db", [N(0xB0)])]
            for a in range(napps):
                p.append(("call", "m1", [arg_expr(k0, 0, a)]))
                p.append(("call", "m0", []))
            p += [("label", "fwd"), ("data", "db", [N(0xF0)]), ("label", "loc"), ("data", "db", [N(0xC1)])]
            progs.append((p, f"one-param,arg1={k0}", True))
    # three and four parameters: every permutation of four argument kinds
    for perm in itertools.permutations(["lit", "const", "back", "fwd"], 3):
        body3 = [("data", "db", [S("p3")]), ("data", "dw", [S("p1")]), ("data", "dl", [S("p2")]), ("label", "loc"), ("data", "dw", [S("loc")])]
        args = [arg_expr(k, j % 2, j) for j, k in enumerate(perm)]
        p = base + [("macro", "m3", ["p1", "p2", "p3"], body3), ("org", N(ORG)), ("label", "back"), ("data", "db", [N(0xB0)]),
                    ("call", "m3", args), ("call", "m3", list(reversed(args))), ("label", "fwd"), ("data", "db", [N(0xF0)])]
        progs.append((p, "three-params," + "/".join(perm), True))
    # a macro defined again later: applications before use the first body, applications after use the second
    p = base + [("macro", "mr", ["x"], [("data", "db", [S("x")])]), ("org", N(ORG)), ("call", "mr", [N(1)]),
                ("macro", "mr", ["x"], [("data", "dw", [S("x")])]), ("call", "mr", [N(2)])]
    progs.append((p, "macro-redefined", False))
    # a macro body (or a code block it splices) that DEFINES a macro: the definition stays in force after the application
    p = base + [("macro", "definer", [], [("macro", "made", ["x"], [("data", "db", [S("x")])])]), ("org", N(ORG)), ("call", "definer", []),
                ("call", "made", [N(0x22)])]
    progs.append((p, "macro-defined-by-a-macro-body", True))
    p = base + [("macro", "made", ["x"], [("data", "db", [("b", "+", S("x"), N(0x10))])]),
                ("macro", "definer", [], [("data", "db", [N(0x20)]), ("macro", "made", ["x"], [("data", "db", [("b", "+", S("x"), N(0x20))])])]),
                ("org", N(ORG)), ("call", "made", [N(1)]), ("call", "definer", []), ("call", "made", [N(2)])]
    progs.append((p, "macro-redefined-by-a-macro-body", True))
    p = base + [("macro", "runb", ["blk"], [("splice", "blk")]), ("org", N(ORG)),
                ("call", "runb", [("code", [("macro", "made2", ["x"], [("data", "db", [S("x")])])])]), ("call", "made2", [N(0x33)])]
    progs.append((p, "macro-defined-by-a-spliced-block", True))
    # an argument names something that does NOT exist at the call site but is spelled like a parameter / a body label: still undefined
    for tag, args in (("like-the-other-parameter", [N(0x11), S("plo")]), ("like-a-body-label", [S("bodyl"), N(1)]), ("like-itself", [S("phi"), N(2)])):
        p = base + [("macro", "pair2", ["plo", "phi"], [("label", "bodyl"), ("data", "db", [S("plo"), S("phi")])]), ("org", N(ORG)), ("call", "pair2", args)]
        progs.append((p, "undefined-argument-spelled-" + tag, False))
    # an application nested in a macro body, the enclosing macro applied first with a label and then with a constant (and the reverse):
    # what one expansion had to defer says nothing about the next
    inner_m = ("macro", "recd", ["kind"], [("if", S("kind"), [("data", "db", [N(0x10), S("kind")])], [("data", "db", [N(0x20)])])])
    outer_m = ("macro", "recw", ["v"], [("data", "db", [N(0xAA)]), ("call", "recd", [S("v")])])
    for tag, order in (("label-then-constant", [("b", "&", S("fwdl"), N(0xFF)), N(3)]), ("constant-then-label", [N(3), ("b", "&", S("fwdl"), N(0xFF))]),
                       ("constant-zero-then-label", [N(0), ("b", "&", S("fwdl"), N(0xFF))])):
        p = base + [inner_m, outer_m, ("org", N(ORG))] + [("call", "recw", [a]) for a in order] + [("label", "fwdl"), ("data", "db", [N(0xF0)])]
        progs.append((p, "nested-application-" + tag, False))
    # a macro and a named scope of the caller share their name: an application exports nothing (`name.label` keeps meaning the
    # named scope's label; `name.label` of a name that only the macro body defines stays undefined for the caller)
    shared = ("macro", "nsx", ["p"], [("label", "sl"), ("data", "db", [S("p")]), ("label", "only"), ("data", "db", [N(0xEE)])])
    p = base + [shared, ("org", N(ORG)), ("scope", "nsx", [("label", "sl"), ("data", "db", [N(9)])]), ("call", "nsx", [N(1)]), ("data", "dw", [S("nsx.sl")]),
                ("call", "nsx", [N(2)]), ("data", "dw", [S("nsx.sl")])]
    progs.append((p, "macro-and-named-scope-share-a-name", False))
    p = base + [shared, ("org", N(ORG)), ("call", "nsx", [N(1)]), ("data", "dw", [S("nsx.only")])]
    progs.append((p, "application-exports-nothing-to-the-caller", False))
    # late binding: a body may apply a macro that is defined further down, as long as it exists when the body is expanded
    p = base + [("macro", "user1", ["x"], [("call", "helper1", [("b", "+", S("x"), N(1))])]), ("macro", "helper1", ["y"], [("data", "db", [S("y")])]),
                ("org", N(ORG)), ("call", "user1", [N(4)]), ("call", "user1", [N(6)])]
    progs.append((p, "body-applies-a-macro-defined-below-it", True))
    p = base + [("macro", "ping", ["n"], [("if", S("n"), [("data", "db", [S("n")]), ("call", "pong", [("b", "-", S("n"), N(1))])], None)]),
                ("macro", "pong", ["n"], [("if", S("n"), [("data", "db", [("b", "+", S("n"), N(0x80))]), ("call", "ping", [("b", "-", S("n"), N(1))])], None)]),
                ("org", N(ORG)), ("call", "ping", [N(5)])]
    progs.append((p, "mutually-recursive-macros", False))
    # a named scope inside the body: its exports belong to the application's scope, never to the caller
    scb = [("scope", "sc", [("label", "sl"), ("data", "db", [N(1)])]), ("data", "dw", [S("sc.sl")])]
    p = base + [("macro", "msc", [], scb), ("org", N(ORG)), ("scope", "sc", [("label", "sl"), ("data", "db", [N(9)])]), ("call", "msc", []),
                ("data", "dw", [S("sc.sl")]), ("call", "msc", []), ("data", "dw", [S("sc.sl")])]
    progs.append((p, "named-scope-in-body-vs-callers-scope", True))
    p = base + [("macro", "msc", [], scb), ("org", N(ORG)), ("call", "msc", []), ("data", "dw", [S("sc.sl")])]
    progs.append((p, "named-scope-in-body-invisible-to-caller", False))
    # the argument names something the caller's BLOCK defines (a label before the call, a `=` symbol before / after it) while
    # an outer constant has the same spelling: the block's definition is the innermost one, so it is the argument's value
    put3 = ("macro", "put3", ["p"], [("data", "dl", [S("p")])])
    for tag, blk in (
            ("label-before-call", [("label", "kc"), ("data", "db", [N(1)]), ("call", "put3", [S("kc")]), ("data", "dl", [S("kc")])]),
            ("label-before-call-in-expression", [("data", "db", [N(1)]), ("label", "kc"), ("call", "put3", [("b", "+", S("kc"), N(2))])]),
            ("label-after-call", [("data", "db", [N(1)]), ("call", "put3", [S("kc")]), ("label", "kc"), ("data", "dl", [S("kc")])]),
            ("label-after-call-in-expression", [("call", "put3", [("b", "+", S("kc"), N(2))]), ("data", "db", [N(1)]), ("label", "kc")]),
            ("label-after-call-two-levels", [("block", [("data", "db", [N(2)]), ("call", "put3", [S("kc")])]), ("label", "kc")]),
            ("eq-before-call", [("eq", "kc", N(0x123456)), ("call", "put3", [S("kc")]), ("data", "dl", [S("kc")])]),
            ("label-before-call-two-levels", [("label", "kc"), ("block", [("data", "db", [N(2)]), ("call", "put3", [S("kc")])])]),
            ("label-before-call-in-named-scope", [("scope", "nsx", [("label", "kc"), ("data", "db", [N(3)]), ("call", "put3", [S("kc")])])])):
        body = blk if tag.endswith("named-scope") else [("block", blk)]
        p = base + [put3, ("org", N(ORG)), ("data", "db", [N(0xB0)])] + body + [("data", "db", [N(0xF0)])]
        progs.append((p, "argument-names-a-" + tag + "-shadowing-an-outer-constant", True))
    # a macro whose name is also a label / constant name; a parameter named like the macro itself
    p = base + [("macro", "same", ["same"], [("data", "db", [S("same")])]), ("org", N(ORG)), ("label", "samelbl"), ("call", "same", [N(7)]),
                ("call", "same", [S("samelbl")])]
    progs.append((p, "parameter-named-like-the-macro", True))
    # two-parameter recursion
    p = base + [("macro", "rec2", ["n", "v"], [("if", S("n"), [("data", "db", [S("v")]), ("call", "rec2", [("b", "-", S("n"), N(1)), ("b", "+", S("v"), N(2))])], None)]),
                ("org", N(ORG)), ("call", "rec2", [N(4), N(0x10)]), ("call", "rec2", [N(0), N(0x20)])]
    progs.append((p, "recursion-two-params", False))
    # conditionally terminated recursion
    for depth in range(0, 7):
        p = base + [("org", N(ORG)), ("call", "mrec", [N(depth)]), ("data", "db", [N(0xEE)]), ("call", "mrec", [("b", "+", S("kc"), N(depth - 0x31))])]
        progs.append((p, "recursion", False))
    # macro applied inside blocks / scopes / other macros, arguments referring to enclosing-scope names
    inner = [("label", "il"), ("data", "db", [N(1)]), ("call", "nn", [S("il")]), ("call", "nn", [S("back")]), ("call", "nn", [S("fwd")])]
    for wrap in ("block", "scope", "for"):
        w = {"block": ("block", inner), "scope": ("scope", "ns", inner), "for": ("for", "ii", N(0), N(2), inner)}[wrap]
        p = base + [("org", N(ORG)), ("label", "back"), ("data", "db", [N(0xB0)]), w, ("label", "fwd"), ("data", "db", [N(0xF0)])]
        progs.append((p, f"applied-in-{wrap}", False))
    # failures
    progs.append((base + [("org", N(ORG)), ("call", "nosuch", [N(1)])], "undefined-macro", False))
    progs.append((base + [("org", N(ORG)), ("call", "late", [N(1)]), ("macro", "late", ["x"], [("data", "db", [S("x")])])], "macro-defined-after-use", False))
    progs.append((base + [("macro", "m2", ["pa", "pb"], [("data", "db", [S("pa")])]), ("org", N(ORG)), ("call", "m2", [N(1)])], "too-few-arguments", False))
    progs.append((base + [("macro", "m2", ["pa", "pb"], [("data", "db", [S("pb")])]), ("org", N(ORG)), ("call", "m2", [])], "too-few-arguments", False))
    progs.append((base + [("org", N(ORG)), ("call", "nn", [N(1), N(2)])], "surplus-arguments(unspecified)", False))
    # "applying an undefined macro fails" must not depend on what an earlier assembly in this process defined
    first = impl.assemble(render.source(base + [("macro", "ghost", ["x"], [("data", "db", [S("x")])]), ("org", N(ORG)), ("call", "ghost", [N(1)])]), rom="low_rom")
    second = impl.assemble(render.source(base + [("org", N(ORG)), ("call", "ghost", [N(2)])]), rom="low_rom")
    evals += 2
    states += 1
    if not first.accepted or second.accepted:
        viol.append({"key": "macro:invalid-program-accepted:undefined-macro-defined-by-an-earlier-assembly",
                     "msg": f"first assembly (defines ghost): {first.brief()}; second assembly applies ghost without defining it: {second.brief()}"})
    # "applications are independent of each other": the bytes of [first, second] are the bytes of [first] followed by those of [second]
    # (the bodies emit no value that depends on the layout; the reference is silent on conditions over deferred parameters)
    tail = [("label", "fwdl"), ("data", "db", [N(0xF0)])]
    head = base + [inner_m, outer_m, ("org", N(ORG))]
    for tag, order in (("label-then-constant", [("b", "&", S("fwdl"), N(0xFF)), N(3)]), ("constant-then-label", [N(3), ("b", "&", S("fwdl"), N(0xFF))]),
                       ("label-then-zero", [("b", "&", S("fwdl"), N(0xFF)), N(0)]), ("label-then-label-then-constant", [S("fwdl"), S("fwdl"), N(7)])):
        outs = [impl.assemble(render.source(head + [("call", "recw", [a]) for a in sel] + tail), rom="low_rom") for sel in ([order[0]], order[1:], order)]
        evals += 3
        states += 1
        if all(o.accepted and len(o.blocks) == 1 for o in outs):
            b1, b2, b12 = (o.blocks[0][1] for o in outs)
            if b12 != b1[:-1] + b2:
                viol.append({"key": f"macro:applications-not-independent:nested-application-{tag}",
                             "msg": f"[first] gives {b1.hex()}, [rest] gives {b2.hex()}, together they give {b12.hex()} :: {render.source(head + [('call', 'recw', [a]) for a in order] + tail)!r}"})
    for prog, tag, twin in progs:
        n, status = check(prog, tag, viol, want_twin=twin)
        evals += n
        states += 1
        nt += 1
        outcomes.add(f"special-{status}")
    return {"evals": evals, "nt_count": nt, "state_count": states, "transitions": states, "outcome": sorted(outcomes),
            "violations": viol[:30], "depth": 3}


def run_case(case):
    if case[0] == "main":
        return run_main(case[1])
    return run_special()
