"""C10 - conditional and loop directives equal the hand-expanded program."""
from __future__ import annotations

import itertools

from mc import impl
from mc.checks.common import compare
from mc.gen import render
from mc.ref import asm as refasm
from mc.ref import bus as refbus
from mc.ref import expr as rx

ID = "C10"
LEVEL = "model_checking"
LEVEL_TEXT = ("Explicit enumeration of `.if` programs (23 condition kinds: 0/1/2/-1 as literal, := constant, macro parameter, constant "
              "expression, undefined name alone and inside an expression) x else present/absent x 10 then-bodies (incl. empty, one that applies an undefined macro, a macro definition, a label used after the .if and a := override) x 6 else-bodies x 4 placements (top level, block, "
              "macro body, loop body) and `.for` programs (all bound pairs over {-2,0,1,3}^2, bounds from := constants, macro "
              "parameters and expressions incl. & << >> at the top of the start bound; the constants are assigned again at the end of every program) x 11 bodies (empty expansion, a macro defined in the body and applied after the loop, a name assigned twice in one iteration and used as an inner loop bound, := shadowing inside the body, data over v, lda.b v, label + reference, nested loop over v*2+w, conditional, "
              "macro call with v, mixed) x 3 placements x 3 nestings (plain, inside a conditional, inside another loop; thorough: bound pairs over 9 values), and every nesting tree with <=3 items (thorough <=4), depth <=3, over 7 leaves (byte, loop variable, two loop variables, label, reference to it, := accumulation, macro call with the variable) and 8 containers (taken .if, .else branch of a false .if, .if over an undefined name, 2-iteration loop, loop over a second variable, zero-iteration loop, block, macro application). Each program is assembled by the real "
              "assembler and compared with (a) the reference expansion and (b) its hand-expanded twin (selected branch spliced in; "
              "`{ v = k ... }` per iteration) run through the same assembler. Tests check one true, one false condition and one loop.")
LEVEL_NOTE = ("Trusted: mc/ref/asm.py and the twin construction in this file. Conditions and bounds are expansion-time values "
              "(literals, := constants, macro parameters); conditions over labels, `=` symbols or the loop variable are unspecified "
              "and not generated. Labels defined inside loop iterations are compared through the bytes that reference them.")
TECHNIQUE = "explicit-state enumeration of conditional/loop programs; oracle = reference expansion + hand-expanded twin"
RULE = ("state = (directive, condition/bounds kind, bodies, placement); every combination is executed. non-trivial = the selected branch "
        "or iteration count is not the trivial one (condition not literal 1 / count not 1), or the body defines a label. Programs are "
        "distinct by construction.")
ASSUMPTIONS = ["reference expansion in mc/ref/asm.py", "twin built structurally by the generator (no text rewriting)"]

N = rx.num
S = rx.sym
DIRECT = ("", "", "")
ORG = 0x018000
NN = ("macro", "nn", ["x"], [("data", "db", [S("x")])])
MZ0 = ("macro", "mz", [], [("data", "db", [N(0xE0)])])
CONSTS = [("const", "kc", N(1)), ("const", "k0", N(0)), ("const", "k2", N(2)), ("const", "kn", ("u", "-", N(1))),
          ("const", "ka", N(1)), ("const", "kb", N(3)), ("const", "kq", N(1)), ("const", "acc", N(0)), ("const", "vv", N(0x5D)), ("const", "ww", N(0x5E))]

# condition kind -> (expression in the program, value, how it is supplied)
COND = {
    "lit0": (N(0), 0, "direct"), "lit1": (N(1), 1, "direct"), "lit2": (N(2), 2, "direct"), "neg1": (("b", "-", N(0), N(1)), -1, "direct"),
    "const0": (S("k0"), 0, "direct"), "const1": (S("kc"), 1, "direct"), "const2": (S("k2"), 2, "direct"), "constneg": (S("kn"), -1, "direct"),
    "lit0x0": (("n", 0, "0x0"), 0, "direct"), "lit0x00": (("n", 0, "0x00"), 0, "direct"), "lit0b0": (("n", 0, "0b0"), 0, "direct"),
    "lit0x1": (("n", 1, "0x01"), 1, "direct"), "param0x0": (("n", 0, "0x0"), 0, "param"),
    "undefined": (S("nosuchname"), 0, "direct"),
    "param0": (N(0), 0, "param"), "param1": (N(1), 1, "param"), "param2": (N(2), 2, "param"), "paramneg": (("b", "-", N(0), N(1)), -1, "param"),
    "expr0": (("b", "-", S("kc"), S("kc")), 0, "direct"), "expr2": (("b", "+", S("kc"), N(1)), 2, "direct"),
    # a condition that MENTIONS an undefined name is false as a whole (the name is not read as 0)
    "undefined-plus-1": (("b", "+", S("nosuchname"), N(1)), 0, "direct"), "one-minus-undefined": (("b", "-", N(1), S("nosuchname")), 0, "direct"),
    "const-plus-undefined": (("b", "+", S("kc"), S("nosuchname")), 0, "direct"),
}
THEN = {
    "db": [("data", "db", [N(0x11)])],
    "label": [("label", "tl"), ("data", "dw", [S("tl")])],
    "nested-if": [("if", S("kc"), [("data", "db", [N(0x12)])], [("data", "db", [N(0x13)])])],
    "nested-for": [("for", "jj", N(0), N(2), [("data", "db", [S("jj")])])],
    "call": [("call", "nn", [N(0x14)])],
    "empty": [],                                                       # an empty first block (with an else block present or not)
    "defines-macro": [("macro", "mz", [], [("data", "db", [N(0xE1)])])],  # each branch defines the same macro differently; applied after the .if
    "label-after": [("label", "la"), ("data", "db", [N(0x15)])],      # the label is referenced AFTER the .if
    "const-override": [("const", "kq", N(2)), ("data", "db", [N(0x16)])],  # kq := 1 outside, .db kq after the .if
    # a block that cannot be expanded: the program fails when (and only when) this block is the selected one
    "undefined-macro": [("data", "db", [N(0x17)]), ("call", "nosuchmacro", [N(1)])],
    # kq is used at expansion time AFTER the .if; the else block (when it is the one NOT selected) defines a label named kq
    "kq-used-after": [("data", "db", [N(0x18)])],
}
AFTER_IF = {"kq-used-after": [("if", S("kq"), [("data", "db", [N(0x5C)])], [("data", "db", [N(0x5D)])])], "label-after": [("data", "dw", [S("la")])], "const-override": [("data", "db", [S("kq")])], "defines-macro": [("call", "mz", [])]}
ELSE = {
    "db": [("data", "db", [N(0x21)])],
    "label": [("label", "el"), ("data", "dw", [S("el")])],
    "call": [("call", "nn", [N(0x24)])],
    "label-after": [("label", "la"), ("data", "db", [N(0x25)])],
    "defines-macro": [("macro", "mz", [], [("data", "db", [N(0xE2)])])],
    "undefined-macro": [("data", "db", [N(0x27)]), ("call", "nosuchmacro", [N(2)])],
    "label-kq": [("label", "kq"), ("data", "db", [N(0x2A)])],
}
IF_PLACES = ["top", "block", "macro", "for"]
FOR_BODIES = {
    "db": [("data", "db", [S("vv")])],
    "ldab": [("ins", "lda", "b", DIRECT, S("vv"))],
    "label": [("label", "fl"), ("data", "dw", [S("fl")])],
    "nested": [("for", "ww", N(0), N(2), [("data", "db", [("b", "+", ("b", "*", S("vv"), N(2)), S("ww"))])])],
    "if": [("if", S("kc"), [("data", "db", [S("vv")])], [("data", "db", [N(0xFF)])])],
    "call": [("call", "nn", [S("vv")])],
    "mixed": [("data", "db", [S("vv")]), ("label", "fl"), ("data", "dl", [S("fl")]), ("data", "db", [("b", "+", S("vv"), N(1))])],
    "empty": [("if", S("k0"), [("data", "db", [S("vv")])], None)],  # every iteration expands to nothing
    # expansion-time state inside the body: a := in an iteration's scope shadows the outer constant for that iteration only
    "assign-twice": [("const", "acc", N(5)), ("data", "db", [S("vv")]), ("const", "acc", ("b", "+", S("acc"), S("vv"))), ("data", "db", [S("acc")]),
                     ("for", "jj", N(0), S("acc"), [("data", "db", [N(0xC7)])])],
    "defines-macro": [("macro", "mz", [], [("data", "db", [("b", "+", S("vv"), N(0xE3))])]), ("call", "mz", [])],  # applied again AFTER the loop
    "scope-in-body": [("scope", "fs", [("label", "sl"), ("data", "db", [S("vv")]), ("eq", "sv", ("b", "+", S("vv"), N(0x40)))]), ("data", "dw", [S("fs.sl")]), ("data", "db", [S("fs.sv")])],
    "shadow-const": [("const", "acc", ("b", "+", S("acc"), N(1))), ("data", "db", [S("acc")]), ("if", S("acc"), [("data", "db", [N(0x5C)])], None)],
}
FOR_PLACES = ["top", "block", "macro"]
VALS = [-2, 0, 1, 3]
VALS_T = [-3, -2, -1, 0, 1, 2, 3, 5, 8]


def bound(tier):
    return ("IF: 23 condition kinds x else on/off x 11 then x 7 else bodies x 4 placements; FOR: (16 literal bound pairs + 11 symbolic) x 10 "
            "bodies x 3 placements x 3 nestings" + ("; bound pairs over {-3..3,5,8}^2; 8 two-level placements" if tier == "thorough" else "")
            + f"; all directive nesting trees with <={4 if tier == 'thorough' else 3} items, depth <=3, over 7 leaves + 8 containers")


def cases(tier, seed):
    setup(tier, seed)
    for ck in COND:
        yield ("if", ck)
    for bk in FOR_BODIES:
        yield ("for", bk, tier)
    # nesting trees of directives: all trees up to a size over TREE_LEAVES + TREE_CONTS
    full_n = 4 if tier == "thorough" else 3
    nsym = len(TREE_LEAVES) + len(TREE_CONTS)
    for n in range(1, full_n + 1):
        for fi in range(nsym):
            if n >= 4:
                for fj in range(nsym + 1):
                    yield ("tree", n, fi, fj)
            else:
                yield ("tree", n, fi, None)


def describe(case, res):
    d = {"case": list(case), "outcome": res.get("outcome")}
    if res.get("example"):
        d["example"] = res["example"]
    return d


def wrap_once(inner, place, macro_defs, level):
    if place == "top":
        return inner
    if place == "block":
        return [("block", [("data", "db", [N(0xA1 + level)])] + inner)]
    if place == "macro":
        name = "wrap" if level == 0 else f"wrap{level}"
        macro_defs.append(("macro", name, [], inner))
        return [("call", name, [])]
    if place == "for":
        return [("for", "oo" if level == 0 else f"oo{level}", N(0), N(2), inner)]
    raise ValueError(place)


def skeleton(inner, place, macro_defs):
    """Wrap `inner` statements at a placement (a name, or 'outer/inner' for two nested placements)."""
    body = [("org", N(ORG)), ("label", "pre"), ("data", "db", [N(0xA0)]), ("label", "fl"), ("data", "db", [N(0xA9)])]
    wrapped = inner
    for level, pl in enumerate(reversed(place.split("/"))):
        wrapped = wrap_once(wrapped, pl, macro_defs, level)
    body += wrapped
    if False:
        pass
    # scoped constructs AFTER the directive: a macro application with an argument and a block with its own label
    # names that loop bodies also use (label fl, variable vv): after the directive they still mean the OUTER definitions
    body += [("data", "dw", [S("fl")]), ("data", "db", [S("vv")]),
             ("call", "nn", [("b", "+", S("kc"), N(0x30))]), ("block", [("label", "pblk"), ("data", "dw", [S("pblk")])]),
             ("label", "post"), ("data", "dw", [N(0xEEDD)]), ("data", "dl", [S("post")])]
    # the constants that conditions and loop bounds read are assigned AGAIN at the very end: directives are decided where
    # they stand, with the value the constant has there
    body += [("const", "ka", N(7)), ("const", "kb", N(0)), ("const", "kc", N(0)), ("const", "k0", N(1)), ("const", "k2", N(0)),
             ("const", "kn", N(0))]
    return body


def neg_safe(v):
    return N(v) if v >= 0 else ("b", "-", N(0), N(-v))


_TWO_LEVEL = False
NEST2 = ["block/macro", "macro/block", "macro/for", "for/macro", "block/for", "for/block", "macro/macro", "for/for"]


def setup(tier, seed):
    global _TWO_LEVEL
    _TWO_LEVEL = tier == "thorough"


def if_programs(ck):
    cexpr, cval, how = COND[ck]
    for has_else in (False, True):
        for tk, ek in itertools.product(THEN, ELSE if has_else else ["db"]):
            for place in IF_PLACES + (NEST2 if _TWO_LEVEL else []):
                then_b, else_b = THEN[tk], (ELSE[ek] if has_else else None)
                if (tk == "label-after") != (has_else and ek == "label-after") and (has_else or tk == "label-after"):
                    if tk == "label-after" and has_else:
                        continue  # both branches must define the label that is used afterwards
                    if ek == "label-after" and has_else:
                        continue
                selected = then_b if cval != 0 else (else_b or [])
                after = AFTER_IF.get(tk, [])
                for twin in (False, True):
                    macros = [NN, MZ0]
                    if how == "param":
                        inner_if = [("if", S("cc"), then_b, else_b)]
                        macros.append(("macro", "wp", ["cc"], (selected if twin else inner_if) + after))
                        inner = [("call", "wp", [cexpr])]
                    else:
                        inner = (selected if twin else [("if", cexpr, then_b, else_b)]) + after
                    body = skeleton(list(inner), place, macros)
                    prog = CONSTS + macros + body
                    if twin:
                        tw = prog
                    else:
                        main = prog
                yield main, tw, (ck, has_else, tk, ek, place), (cval != 1 or tk == "label" or (has_else and ek == "label"))


def unroll(var, lo, hi, body):
    return [("block", [("eq", var, neg_safe(k))] + body) for k in range(lo, hi)]


def for_programs(bk, tier):
    body = FOR_BODIES[bk]
    vals = VALS_T if tier == "thorough" else VALS
    bounds = [(neg_safe(a), neg_safe(b), a, b, "direct", f"{a},{b}") for a in vals for b in vals]
    bounds += [(S("ka"), S("kb"), 1, 3, "direct", "ka,kb"), (S("kb"), S("ka"), 3, 1, "direct", "kb,ka"),
               (("b", "-", S("ka"), N(1)), ("b", "+", S("kb"), N(1)), 0, 4, "direct", "ka-1,kb+1"),
               (("b", "&", S("kb"), N(2)), N(5), 2, 5, "direct", "kb&2,5"), (("b", "<<", S("kb"), N(1)), N(8), 6, 8, "direct", "kb<<1,8"),
               (("b", "&", S("kb"), N(2)), ("b", ">>", S("kb"), N(0)), 2, 3, "direct", "kb&2,kb>>0"),
               (("b", "&", S("kb"), N(2)), N(5), 2, 5, "param", "param kb&2,5"),
               (N(1), N(3), 1, 3, "param", "param 1,3"), (N(0), S("kb"), 0, 3, "param", "param 0,kb"),
               (N(1), N(3), 1, 3, "param-twice", "param 1,3 then 0,1"), (N(2), N(2), 2, 2, "param-twice", "param 2,2 then 0,1")]
    for lo_e, hi_e, lo, hi, how, btag in bounds:
        for place in FOR_PLACES + (NEST2 if _TWO_LEVEL else []):
            variants = [("plain", lambda x: x), ("in-if", lambda x: [("if", S("kc"), x, None)]),
                        ("in-for", lambda x: [("for", "qq", N(0), N(2), x)])]
            for vname, wrapv in variants:
                progs = []
                for twin in (False, True):
                    macros = [NN]
                    loop = unroll("vv", lo, hi, body) if twin else [("for", "vv", lo_e, hi_e, body)]
                    if how == "param-twice":
                        # the same macro (one .for in its body) applied twice with different bounds
                        if twin:
                            macros.append(("macro", "wfa", [], loop))
                            macros.append(("macro", "wfb", [], unroll("vv", 0, 1, body)))
                            inner = [("call", "wfa", []), ("data", "db", [N(0xEA)]), ("call", "wfb", [])]
                        else:
                            macros.append(("macro", "wf", ["lo", "hi"], [("for", "vv", S("lo"), S("hi"), body)]))
                            inner = [("call", "wf", [lo_e, hi_e]), ("data", "db", [N(0xEA)]), ("call", "wf", [N(0), N(1)])]
                    elif how == "param":
                        macros.append(("macro", "wf", ["lo", "hi"], loop if twin else [("for", "vv", S("lo"), S("hi"), body)]))
                        inner = [("call", "wf", [lo_e, hi_e])]
                    else:
                        inner = loop
                    inner = wrapv(inner) if not twin or vname == "plain" else _twin_wrap(vname, inner)
                    if bk == "defines-macro":
                        if hi - lo < 1:
                            macros.append(MZ0)  # no iteration defines it: the earlier definition stays
                        inner = inner + [("call", "mz", [])]
                    body_stmts = skeleton(list(inner), place, macros)  # may add the `wrap` macro to `macros`
                    progs.append(CONSTS + macros + body_stmts)
                yield progs[0], progs[1], (bk, btag, place, vname), (hi - lo != 1 or bk in ("label", "mixed"))


def _twin_wrap(vname, inner):
    if vname == "in-if":
        return inner  # condition kc = 1: the selected branch spliced in place
    return [("block", [("eq", "qq", N(k))] + inner) for k in range(0, 2)]


LOOP_LOCAL = {"fl", "tl", "el"}


def outer_labels(labels):
    return sorted((n, v) for n, v in labels if n in ("pre", "post"))


def run_pairs(gen, prefix, skip_unspec=False):
    bus = refbus.lorom()
    viol = []
    outcomes = set()
    evals = nt = states = 0
    example = None
    for main, twin, tag, nontrivial in gen:
        states += 1
        src = render.source(main)
        v = refasm.RefAsm(bus).assemble(main)
        if skip_unspec and v.status == "unspec":
            # the reference is silent (e.g. a name assigned twice in one scope): the hand-expanded twin still is an oracle -
            # when both are accepted they must agree
            out = impl.assemble(src, rom="low_rom")
            evals += 1
            if out.accepted:
                tsrc = render.source(twin)
                o2 = impl.assemble(tsrc, rom="low_rom")
                evals += 1
                if o2.accepted and (o2.blocks != out.blocks or outer_labels(o2.labels) != outer_labels(out.labels)):
                    kt = ",".join(str(x) for x in tag)
                    viol.append({"key": f"{prefix}:differs-from-hand-expanded-twin:{kt.split(',')[0]},{kt.split(',')[-1]}",
                                 "msg": f"program {out.brief()} vs twin {o2.brief()} :: {src!r} :: twin {tsrc!r}"})
                    outcomes.add("VIOLATION")
                    if len(viol) > 30:
                        break
                    continue
            outcomes.add("unspecified-twin-only")
            continue
        out = impl.assemble(src, rom="low_rom")
        evals += 1
        key_tag = ",".join(str(x) for x in tag)
        vs = compare(out, v, prefix, src, labels=False)
        if not vs and v.status == "ok" and outer_labels(out.labels) != outer_labels(v.labels):
            vs = [{"key": f"{prefix}:wrong-label-values", "msg": f"{outer_labels(out.labels)} vs {outer_labels(v.labels)} :: {src!r}"}]
        if vs:
            vs[0]["key"] += ":" + key_tag.split(",")[0] + ("," + key_tag.split(",")[-1])
            viol += vs
            outcomes.add("VIOLATION")
        else:
            outcomes.add(v.status)
        if out.accepted:
            tsrc = render.source(twin)
            o2 = impl.assemble(tsrc, rom="low_rom")
            evals += 1
            if not o2.accepted or o2.blocks != out.blocks or outer_labels(o2.labels) != outer_labels(out.labels):
                viol.append({"key": f"{prefix}:differs-from-hand-expanded-twin:{key_tag.split(',')[0]},{key_tag.split(',')[-1]}",
                             "msg": f"program {out.brief()} vs twin {o2.brief()} :: {src!r} :: twin {tsrc!r}"})
                outcomes.add("VIOLATION")
        if nontrivial:
            nt += 1
            if example is None and v.status == "ok" and not vs:
                example = {"source": src, "blocks": out.brief()}
        if len(viol) > 30:
            break
    return {"evals": evals, "nt_count": nt, "state_count": states, "transitions": states, "outcome": sorted(outcomes),
            "violations": viol[:30], "example": example, "depth": 2}


# ---- nesting trees -------------------------------------------------------------------------------------------
TREE_LEAVES = ["db", "dbv", "dbw", "lbl", "ref", "acc", "call"]
TREE_CONTS = ["IT", "IE", "IU", "F2", "FW", "F0", "B", "M"]
TREE_DEPTH = 3


def _seqs(n, d):
    if n == 0:
        yield ()
        return
    for lf in TREE_LEAVES:
        for rest in _seqs(n - 1, d):
            yield (lf,) + rest
    if d > 0:
        for inner_n in range(0, n):
            for c in TREE_CONTS:
                for inner in _seqs(inner_n, d - 1):
                    for rest in _seqs(n - 1 - inner_n, d):
                        yield ((c, inner),) + rest


def _first_item(n, d, idx):
    nl = len(TREE_LEAVES)
    if idx < nl:
        if n >= 1:
            yield TREE_LEAVES[idx], 1
    elif d > 0:
        c = TREE_CONTS[idx - nl]
        for inner_n in range(0, n):
            for inner in _seqs(inner_n, d - 1):
                yield (c, inner), 1 + inner_n


def _with_first(n, d, idx):
    for item, c in _first_item(n, d, idx):
        for rest in _seqs(n - c, d):
            yield (item,) + rest


def trees_for(n, fi, fj):
    if fj is None:
        yield from _with_first(n, TREE_DEPTH, fi)
        return
    for item, c in _first_item(n, TREE_DEPTH, fi):
        if fj == len(TREE_LEAVES) + len(TREE_CONTS):
            if n - c == 0:
                yield (item,)
        else:
            for rest in _with_first(n - c, TREE_DEPTH, fj):
                yield (item,) + rest


def tree_program(tree, twin):
    """Abstract program of a directive tree; twin=True writes every directive out by hand."""
    macros = [NN]

    def conv(items):
        out = []
        for it in items:
            if it == "db":
                out.append(("data", "db", [N(0x11)]))
            elif it == "dbv":
                out.append(("data", "db", [S("vv")]))
            elif it == "dbw":
                out.append(("data", "db", [("b", "+", S("ww"), S("vv"))]))
            elif it == "lbl":
                out += [("label", "tl"), ("data", "db", [N(0x1F)])]
            elif it == "ref":
                out.append(("data", "dw", [S("tl")]))
            elif it == "acc":
                out += [("const", "acc", ("b", "+", S("acc"), N(1))), ("data", "db", [S("acc")])]
            elif it == "call":
                out.append(("call", "nn", [S("vv")]))
            else:
                k, inner = it
                body = conv(inner)
                if k == "IT":
                    out += body if twin else [("if", S("kc"), body, None)]
                elif k == "IE":
                    out += body if twin else [("if", S("k0"), [("data", "db", [N(0x2F)])], body)]
                elif k == "IU":
                    out += [] if twin else [("if", S("nosuchname"), body, None)]
                elif k in ("F2", "FW", "F0"):
                    var, lo, hi = {"F2": ("vv", 0, 2), "FW": ("ww", 1, 3), "F0": ("vv", 1, 1)}[k]
                    out += unroll(var, lo, hi, body) if twin else [("for", var, N(lo), N(hi), body)]
                elif k == "B":
                    out.append(("block", body))
                elif k == "M":
                    name = f"mt{len(macros)}"
                    macros.append(("macro", name, [], body))
                    out.append(("call", name, []))
        return out

    body = conv(tree)
    return CONSTS + macros + skeleton(body, "top", macros)


def _tree_kinds(tree, acc):
    for it in tree:
        if not isinstance(it, str):
            acc.add(it[0])
            _tree_kinds(it[1], acc)
    return acc


def tree_pairs(n, fi, fj):
    for tree in trees_for(n, fi, fj):
        kinds = _tree_kinds(tree, set())
        if not kinds & {"IT", "IE", "IU", "F2", "FW", "F0"}:
            continue  # no directive in the tree: nothing of this property to observe
        tag = ("tree", "+".join(sorted(kinds)))
        yield tree_program(tree, False), tree_program(tree, True), tag, True


def run_case(case):
    if case[0] == "tree":
        r = run_pairs(tree_pairs(case[1], case[2], case[3]), "tree", skip_unspec=True)
        r["depth"] = case[1]
        return r
    if case[0] == "if":
        return run_pairs(if_programs(case[1]), "if")
    return run_pairs(for_programs(case[1], case[2]), "for")
