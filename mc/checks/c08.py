"""C08 - names resolve lexically; scopes isolate; named scopes export (all nesting trees up to a bound)."""
from __future__ import annotations

from mc import impl
from mc.checks.common import compare
from mc.gen import render
from mc.ref import asm as refasm
from mc.ref import bus as refbus
from mc.ref import expr as rx

ID = "C08"
LEVEL = "model_checking"
LEVEL_TEXT = ("Explicit enumeration of every nesting tree with <=4 items (thorough <=5) and depth <=3 over 10 leaf kinds (define label / "
              "`=` / `:=` for names a,b; reference a,b; qualified reference s.a, s.b, t.a) and 5 containers (block, .scope s, .scope t, "
              "macro application, 2-iteration loop), plus all trees with 5 items (thorough 6) over a reduced alphabet and over an 'early evaluation' alphabet (width-inferred `lda a`, `u = a + 1`) and a 'repeated application' alphabet (the same macro applied twice, a loop whose variable is spelled like an outer name) and an 'underscore' alphabet (names _a and a_1, unqualified and as s._a / s.a_1); each rendered "
              "and assembled by the real assembler and compared with an independent lexical-environment model (bytes of every "
              "reference, rejection of out-of-scope references, label list). Metamorphic relations on every accepted tree: swapping "
              "the names a<->b consistently, and adding an unrelated label inside each scope, leave the output unchanged. "
              "Tests cover one shadowed symbol, one export and one forward scoped reference.")
LEVEL_NOTE = ("Trusted: mc/ref/asm.py environment model. Trees that define a name twice in one scope (or export one qualified name "
              "twice) are unspecified and skipped. Every reference is a 2-byte `.dw`, so layout is trivial.")
TECHNIQUE = "explicit-state enumeration of scope nesting trees; oracle = lexical environment model + rename/extension metamorphic relations"
RULE = ("state = nesting tree (sequence of items, containers hold sequences); transition = adding one item. All trees within the size/"
        "depth bound are executed. non-trivial = accepted tree in which at least one reference resolves across a scope boundary "
        "(measured by the reference's lookup). Trees are distinct by construction.")
ASSUMPTIONS = ["environment model in mc/ref/asm.py", "duplicate definitions in one scope are outside the claim"]

N = rx.num
S = rx.sym
LEAVES_FULL = [("dl", "a"), ("dl", "b"), ("de", "a"), ("de", "b"), ("dc", "a"), ("r", "a"), ("r", "b"), ("q", "s.a"), ("q", "s.b"), ("q", "t.a")]
# early-evaluation family (third alphabet): the name is also evaluated before emission - by the label pass (width-inferred
# `lda a`) or by the symbol pass (`u = a + 1`) - which must not change what later references resolve to
LEAVES_EARLY = [("dl", "a"), ("de", "a"), ("r", "a"), ("ri", "a"), ("re", "a"), ("q", "s.a")]
CONT_EARLY = ["B", "Ss"]
# repeated-application family: the SAME macro body applied twice, loops whose variable is spelled like an outer name
LEAVES_REP = [("dl", "a"), ("de", "a"), ("dc", "a"), ("r", "a"), ("q", "s.a"), ("ri", "a")]
CONT_REP = ["M2", "Fa", "Ss", "B"]
# names that start with an underscore, unqualified and as members of a named scope
LEAVES_UND = [("dl", "_a"), ("de", "_a"), ("r", "_a"), ("q", "s._a"), ("dl", "a_1"), ("q", "s.a_1")]
CONT_UND = ["B", "Ss", "M"]
# expansion-time references (.if over the name, := from the name) next to labels and constants of the same spelling in other scopes
LEAVES_EXP = [("dc", "a"), ("dl", "a"), ("r", "a"), ("rx", "a"), ("rc", "a"), ("de", "a")]
CONT_EXP = ["B", "Ss", "M"]
CONT_FULL = ["B", "Ss", "St", "M", "F"]
LEAVES_RED = [("dl", "a"), ("dl", "b"), ("de", "a"), ("r", "a"), ("r", "b"), ("q", "s.a")]
CONT_RED = ["B", "Ss", "M"]
ORG = 0x018000


def bound(tier):
    if tier == "thorough":
        return "all trees with <=5 items over 10 leaves + 5 containers, depth <=3; all trees with 6 items over 6 leaves + 3 containers; all trees with <=6 items over the 6+2 early-evaluation alphabet ; all trees with one item fewer over the 6+4 repeated-application alphabet and over the 6+3 underscore-names and 6+3 expansion-time-reference alphabets"
    return "all trees with <=4 items over 10 leaves + 5 containers, depth <=3; all trees with 5 items over 6 leaves + 3 containers; all trees with <=5 items over the 6+2 early-evaluation alphabet ; all trees with one item fewer over the 6+4 repeated-application alphabet and over the 6+3 underscore-names and 6+3 expansion-time-reference alphabets"


def seqs(n, d, leaves, conts):
    """All item sequences of total cost exactly n and nesting depth <= d."""
    if n == 0:
        yield ()
        return
    for lf in leaves:
        for rest in seqs(n - 1, d, leaves, conts):
            yield (lf,) + rest
    if d > 0:
        for inner_n in range(0, n):
            for c in conts:
                for inner in seqs(inner_n, d - 1, leaves, conts):
                    for rest in seqs(n - 1 - inner_n, d, leaves, conts):
                        yield ((c, inner),) + rest


def first_items(leaves, conts):
    return [("leaf", lf) for lf in leaves] + [("cont", c) for c in conts]


def cases(tier, seed):
    full_n = 5 if tier == "thorough" else 4
    red_n = 6 if tier == "thorough" else 5
    for n in range(1, full_n + 1):
        for fi in range(len(LEAVES_FULL) + len(CONT_FULL)):
            if n >= 4:
                for fj in range(len(LEAVES_FULL) + len(CONT_FULL) + 1):
                    yield ("trees", "full", n, fi, fj, True)
            else:
                yield ("trees", "full", n, fi, None, True)
    for fi in range(len(LEAVES_RED) + len(CONT_RED)):
        for fj in range(len(LEAVES_RED) + len(CONT_RED) + 1):
            yield ("trees", "red", red_n, fi, fj, False)
    for n in range(1, red_n + 1):
        for fi in range(len(LEAVES_EARLY) + len(CONT_EARLY)):
            yield ("trees", "early", n, fi, None, False)
    for n in range(1, red_n):
        for fi in range(len(LEAVES_UND) + len(CONT_UND)):
            yield ("trees", "und", n, fi, None, False)
    for n in range(1, red_n + 1):
        for fi in range(len(LEAVES_EXP) + len(CONT_EXP)):
            if n >= 5:
                for fj in range(len(LEAVES_EXP) + len(CONT_EXP) + 1):
                    yield ("trees", "exp", n, fi, fj, False)
            else:
                yield ("trees", "exp", n, fi, None, False)
    for n in range(1, red_n):
        for fi in range(len(LEAVES_REP) + len(CONT_REP)):
            if n >= 5:
                for fj in range(len(LEAVES_REP) + len(CONT_REP) + 1):
                    yield ("trees", "rep", n, fi, fj, False)
            else:
                yield ("trees", "rep", n, fi, None, False)


def describe(case, res):
    d = {"case": list(case), "outcome": res.get("outcome")}
    if res.get("example"):
        d["example"] = res["example"]
    return d


def trees_for(alpha, n, fi, fj):
    """Trees of cost n whose first item is item #fi of the alphabet (and, if fj is given, whose second top-level
    item is #fj, with fj == len(alphabet) meaning 'there is no second top-level item')."""
    leaves, conts = {"full": (LEAVES_FULL, CONT_FULL), "red": (LEAVES_RED, CONT_RED), "early": (LEAVES_EARLY, CONT_EARLY),
                     "rep": (LEAVES_REP, CONT_REP), "und": (LEAVES_UND, CONT_UND), "exp": (LEAVES_EXP, CONT_EXP)}[alpha]
    nl = len(leaves)

    def first_item(n, d, idx):
        if idx < nl:
            if n >= 1:
                yield leaves[idx], 1
        elif d > 0:
            c = conts[idx - nl]
            for inner_n in range(0, n):
                for inner in seqs(inner_n, d - 1, leaves, conts):
                    yield (c, inner), 1 + inner_n

    def with_first(n, d, idx):
        for item, c in first_item(n, d, idx):
            for rest in seqs(n - c, d, leaves, conts):
                yield (item,) + rest

    if fj is None:
        yield from with_first(n, 3, fi)
        return
    for item, c in first_item(n, 3, fi):
        if fj == nl + len(conts):
            if n - c == 0:
                yield (item,)
        else:
            for rest in with_first(n - c, 3, fj):
                yield (item,) + rest


def to_program(tree, swap=False, extra_in=None):
    """Abstract program for a tree. swap: exchange names a<->b everywhere. extra_in: index of the scope (pre-order,
    0 = root) that receives an additional unrelated label `zz` at its end."""
    macros = []
    counter = [0]
    scope_idx = [0]

    def nm(x):
        if not swap:
            return x
        return x.translate(str.maketrans("ab", "ba")) if "." not in x else x.split(".")[0] + "." + x.split(".")[1].translate(str.maketrans("ab", "ba"))

    def conv(items, my_idx):
        out = []
        for it in items:
            counter[0] += 1
            pos = counter[0]
            k = it[0]
            if k == "dl":
                out.append(("label", nm(it[1])))
            elif k == "de":
                out.append(("eq", nm(it[1]), N(0x1100 + pos)))
            elif k == "dc":
                out.append(("const", nm(it[1]), N(0x2200 + pos)))
            elif k in ("r", "q"):
                out.append(("data", "dw", [S(nm(it[1]))]))
            elif k == "ri":
                out.append(("ins", "lda", "", ("", "", ""), S(nm(it[1]))))
            elif k == "rx":
                out.append(("if", S(nm(it[1])), [("data", "db", [N(0x5A)])], [("data", "db", [N(0xA5)])]))
            elif k == "rc":
                out.append(("const", f"w{pos}", ("b", "+", S(nm(it[1])), N(1))))
                out.append(("data", "dw", [S(f"w{pos}")]))
            elif k == "re":
                out.append(("eq", f"u{pos}", ("b", "+", S(nm(it[1])), N(1))))
                out.append(("data", "dw", [S(f"u{pos}")]))
            else:
                scope_idx[0] += 1
                idx = scope_idx[0]
                if k == "F":
                    # both iterations open a scope; the extra label (if any) goes into each iteration
                    body = conv(it[1], idx)
                    out.append(("for", "ii", N(0), N(2), body))
                    scope_idx[0] += 0
                else:
                    body = conv(it[1], idx)
                    if k == "B":
                        out.append(("block", body))
                    elif k in ("Ss", "St"):
                        out.append(("scope", k[1], body))
                    elif k == "M":
                        name = f"mq{len(macros)}"
                        macros.append(("macro", name, [], body))
                        out.append(("call", name, []))
                    elif k == "M2":
                        name = f"mq{len(macros)}"
                        macros.append(("macro", name, [], body))
                        out.append(("call", name, []))
                        out.append(("data", "db", [N(0x99)]))
                        out.append(("call", name, []))
                    elif k == "Fa":
                        out.append(("for", nm("a"), N(0), N(2), body))
        if extra_in == my_idx:
            out.append(("label", "zz"))
        return out

    body = conv(tree, 0)
    return macros + [("org", N(ORG))] + body, scope_idx[0] + 1


def kinds_in(tree, acc=None):
    acc = set() if acc is None else acc
    for it in tree:
        if it[0] in ("B", "Ss", "St", "M", "F", "M2", "Fa"):
            acc.add(it[0] if it[0] in ("M2", "Fa") else it[0][0])
            kinds_in(it[1], acc)
    return acc


def run_case(case):
    _, alpha, n, fi, fj, meta = case
    bus = refbus.lorom()
    viol = []
    outcomes = set()
    evals = nt = states = 0
    example = None
    for tree in trees_for(alpha, n, fi, fj):
        states += 1
        prog, nscopes = to_program(tree)
        v = refasm.RefAsm(bus).assemble(prog)
        if v.status == "unspec":
            outcomes.add("unspecified-skipped")
            continue
        src = render.source(prog)
        out = impl.assemble(src, rom="low_rom")
        evals += 1
        tag = "+".join(sorted(kinds_in(tree))) or "flat"
        vs = compare(out, v, "scope", src)
        if vs:
            vs[0]["key"] += ":" + tag
            viol += vs
            outcomes.add("VIOLATION")
            if len(viol) > 25:
                break
            continue
        outcomes.add(v.status)
        if v.status == "ok" and v.stats["cross_scope_refs"] > 0:
            nt += 1
            if example is None and nscopes >= 3:
                example = {"source": src, "blocks": out.brief()}
        if meta and v.status == "ok":
            # metamorphic 1: consistent renaming a<->b
            p2, _ = to_program(tree, swap=True)
            o2 = impl.assemble(render.source(p2), rom="low_rom")
            evals += 1
            if o2.status != out.status or o2.blocks != out.blocks:
                viol.append({"key": f"scope:rename-changes-output:{tag}", "msg": f"swapping a<->b changes the output: {out.brief()} vs {o2.brief()} :: {src!r}"})
                outcomes.add("VIOLATION")
            # metamorphic 2: an unrelated definition added inside any one scope
            for si in range(nscopes):
                p3, _ = to_program(tree, extra_in=si)
                o3 = impl.assemble(render.source(p3), rom="low_rom")
                evals += 1
                if o3.status != out.status or o3.blocks != out.blocks:
                    viol.append({"key": f"scope:unrelated-definition-changes-output:{tag}",
                                 "msg": f"adding label zz in scope #{si} changes the output: {out.brief()} vs {o3.brief()} :: {src!r}"})
                    outcomes.add("VIOLATION")
                    break
        if len(viol) > 25:
            break
    return {"evals": max(evals, 1), "nt_count": nt, "state_count": states, "transitions": states, "outcome": sorted(outcomes) or ["none"],
            "violations": viol[:25], "example": example, "depth": n}
