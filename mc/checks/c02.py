"""C02 - every label equals the address where the next byte is really emitted (statement-sequence exploration)."""
from __future__ import annotations

import itertools

from mc import impl
from mc.checks.common import compare
from mc.gen import render
from mc.ref import asm as refasm
from mc.ref import bus as refbus
from mc.ref import expr as rx
from mc.ref import ips as refips

ID = "C02"
LEVEL = "model_checking"
LEVEL_TEXT = ("Explicit enumeration of all statement sequences of length 3 (thorough: 4) over an alphabet with one representative per "
              "size mechanism (explicit suffix; width inferred from a literal, a := constant, a backward/forward label, a name shadowed "
              "by an inner label or `=` defined later/earlier, wider and narrower than the outer constant; data lists; .ascii; .text; .incbin of 0/1/5/65541 bytes (the last one crosses two bank ends); macro, loop, "
              "conditional, block, named scope, .include_ips; *= (also to file offset 0 and to the address already reached) and @= moves) x 2 start positions (window start, 3 bytes before a bank end) x "
              "LoROM/HiROM. A label and a unique 4-byte marker follow every statement; the marker's file offset in the real output, "
              "pulled back through the bus model, is where the next byte really went and must equal the label's value from "
              "get_all_labels() and from a `.dl label` table. Tests assert three or four labels in straight-line programs.")
LEVEL_NOTE = ("Trusted: marker search + mc/ref/bus.py; the label/marker agreement needs no reference sizes. A second oracle compares the "
              "whole output with mc/ref/asm.py where that reference is defined. Rejection is always compatible with C02; acceptance "
              "with shifted labels is the violation.")
TECHNIQUE = "explicit-state enumeration of statement sequences; per-label agreement of marker offsets (real output) with label values"
RULE = ("state = statement sequence + placement; transition = appending one statement kind. All sequences of the depth bound are "
        "executed. non-trivial = accepted program in which >=1 label follows an inferred-width or variable-size statement; sequences are "
        "distinct by construction.")
ASSUMPTIONS = ["markers (DD EE k BB) occur nowhere else in generated programs", "moves only at top level",
               "mc/ref/bus.py maps file offsets back to run addresses"]

N = rx.num
S = rx.sym
DIRECT = ("", "", "")
IMM = ("#", "", "")

PLACES = {
    "low_rom": dict(starts=[0x018000, 0x01FFFD], zero=0x008000, other=0x068100, rrom=0x03A000, rram=0x7E1000, table=0x05F000),
    "high_rom": dict(starts=[0x410000, 0x41FFFD], zero=0x400000, other=0x468100, rrom=0x43A000, rram=0x7E1000, table=0x45F000),
}
TABLE = "10=a\n1112=ab\n20=b\n"
KINDS = ["ins-explicit", "ins-lit1", "ins-lit2", "ins-lit3", "ins-const", "ins-imm-const", "ins-back", "ins-fwd",
         "sh-later-label", "sh-earlier-label", "sh-later-eq", "sh-earlier-eq", "sh-scope-label", "sh-macro-label", "shw-later-label", "shw-later-eq", "org-shadowed", "reloc-shadowed",
         "db1", "dw2", "dl3", "ptr-back", "ascii", "text", "incbin0", "incbin1", "incbin5",
         "macro-narrow", "macro-wide", "for", "if", "block", "nop", "incips", "org", "org-zero", "org-here", "reloc-rom", "reloc-ram"]
VARIABLE = {"ins-lit1", "ins-lit2", "ins-lit3", "ins-const", "ins-imm-const", "ins-back", "sh-later-label", "sh-earlier-label",
            "sh-later-eq", "sh-earlier-eq", "sh-scope-label", "sh-macro-label", "shw-later-label", "shw-later-eq", "text", "incbin0", "incbin1", "incbin5", "incbin65541",
            "macro-narrow", "macro-wide", "for", "if"}


# a statement that crosses two bank ends at once is expensive to assemble; it gets its own family: exactly one such
# statement at each position of a 3-statement sequence, the other positions over BIG_OTHERS
BIG = "incbin65541"
BIG_OTHERS = ["ins-lit1", "ins-back", "db1", "dl3", "incbin5", "nop", "reloc-rom"]


def bound(tier):
    d = 4 if tier == "thorough" else 3
    return (f"all sequences of {d} statements over {len(KINDS)} statement kinds x 2 start positions x LoROM/HiROM (+ all shorter sequences); "
            "147 sequences with one 65541-byte .incbin (crosses two bank ends) x 4 placements")


def cases(tier, seed):
    d = 4 if tier == "thorough" else 3
    for busname in PLACES:
        for si in range(2):
            for n in range(1, d + 1):
                if n == 1:
                    yield ("seq", busname, si, n, ())
                    yield ("big", busname, si, 3, ())
                else:
                    for k0 in range(len(KINDS)):
                        if n <= 3:
                            yield ("seq", busname, si, n, (k0,))
                        else:
                            for k1 in range(len(KINDS)):
                                yield ("seq", busname, si, n, (k0, k1))


def big_sequences():
    for pos in range(3):
        for a in BIG_OTHERS:
            for b in BIG_OTHERS:
                seq = [a, b]
                seq.insert(pos, BIG)
                yield seq


def describe(case, res):
    d = {"case": list(case), "outcome": res.get("outcome")}
    if res.get("example"):
        d["example"] = res["example"]
    return d


def stmt(kind, i, pl):
    """Abstract statements for one alphabet entry at position i."""
    lda = lambda sfx, e, shape=DIRECT: ("ins", "lda", sfx, shape, e)  # noqa: E731
    if kind == "ins-explicit":
        return [lda("w", N(0x1234))]
    if kind == "ins-lit1":
        return [lda("", N(0x12))]
    if kind == "ins-lit2":
        return [lda("", N(0x1234))]
    if kind == "ins-lit3":
        return [lda("", N(0x123456))]
    if kind == "ins-const":
        return [lda("", S("kc"))]
    if kind == "ins-imm-const":
        return [lda("", S("kb"), IMM)]
    if kind == "ins-back":
        return [lda("", S("Lstart"))]
    if kind == "ins-fwd":
        return [lda("", S("Lend"))]
    if kind == "sh-later-label":
        return [("block", [lda("", S("sha")), ("label", "sha"), ("data", "db", [N(1)])])]
    if kind == "sh-earlier-label":
        return [("block", [("label", "sha"), lda("", S("sha"))])]
    if kind == "sh-later-eq":
        return [("block", [lda("", S("sha")), ("eq", "sha", N(0x123456))])]
    if kind == "sh-earlier-eq":
        return [("block", [("eq", "sha", N(0x123456)), lda("", S("sha"))])]
    # the other direction: the outer constant is WIDE (4-byte lda), the inner definition narrow (a bank-00 label after
    # `*=` to bank 00, or a small `=` value): emission would be shorter than the label pass assumed
    if kind == "shw-later-label":
        return [("block", [lda("", S("shw")), ("label", "shw"), ("data", "db", [N(4)])])]
    if kind == "shw-later-eq":
        return [("block", [lda("", S("shw")), ("eq", "shw", N(0x12))])]
    # a position directive whose operand means an outer constant while labels are computed and a block label at emission
    if kind == "org-shadowed":
        return [("block", [("org", S("shp")), ("data", "db", [N(6), N(7)]), ("label", "shp"), ("data", "db", [N(8)])])]
    if kind == "reloc-shadowed":
        return [("block", [("reloc", S("shq")), ("data", "db", [N(6), N(7)]), ("label", "shq"), ("data", "db", [N(8)])])]
    if kind == "sh-scope-label":
        return [("scope", f"ns{i}", [lda("", S("sha")), ("label", "sha"), ("data", "db", [N(2)])])]
    if kind == "sh-macro-label":
        return [("call", "msh", [])]
    if kind == "db1":
        return [("data", "db", [N(1)])]
    if kind == "dw2":
        return [("data", "dw", [N(1), N(0x202)])]
    if kind == "dl3":
        return [("data", "dl", [N(1), N(2), S("Lend")])]
    if kind == "ptr-back":
        return [("data", "pointer", [S("Lstart")])]
    if kind == "ascii":
        return [("ascii", "abc")]
    if kind == "text":
        return [("text", "abzab")]
    if kind.startswith("incbin"):
        return [("incbin", f"f{i}_{kind[6:]}.bin")]
    if kind == "macro-narrow":
        return [("call", "m2", [N(0x34)])]
    if kind == "macro-wide":
        return [("call", "m2", [N(0x1234)])]
    if kind == "for":
        return [("for", "ii", N(0), N(3), [("data", "db", [S("ii")])])]
    if kind == "if":
        return [("if", S("kb"), [lda("", N(0x12))], [("data", "dl", [N(0)])])]
    if kind == "block":
        return [("block", [("data", "db", [N(1)]), ("label", "inner"), ("data", "dw", [S("inner")])])]
    if kind == "nop":
        return [("ins", "nop", "", None, None)]
    if kind == "incips":
        return [("incips", "far.ips", N(0x10))]  # emits nothing itself; its record goes to a far-away offset
    if kind == "org":
        return [("org", N(pl["other"] + 0x100 * i))]
    if kind == "org-zero":
        return [("org", N(pl["zero"] + 0x100 * i))]
    if kind == "org-here":
        # *= to the run address already reached: the output must move to the offset that address maps to
        return [("label", f"here{i}"), ("org", S(f"here{i}"))]
    if kind == "reloc-rom":
        return [("reloc", N(pl["rrom"] + 0x100 * i))]
    if kind == "reloc-ram":
        return [("reloc", N(pl["rram"] + 0x100 * i))]
    raise ValueError(kind)


def marker(i):
    return ("data", "dw", [N(0xEEDD), N(0xBB00 + i)])


def build(busname, si, kinds):
    pl = PLACES[busname]
    start = pl["starts"][si]
    prog = [
        ("const", "kc", N(0x1234)), ("const", "kb", N(0x12)), ("const", "sha", N(0x12)), ("const", "shw", N(0x123456)), ("const", "shp", N(pl["other"] + 0x4000)), ("const", "shq", N(pl["rram"] + 0x800)),
        ("table", "t.tbl"),
        ("macro", "m2", ["pp"], [("ins", "lda", "", DIRECT, S("pp")), ("label", "ml"), ("data", "dw", [S("ml")])]),
        ("macro", "msh", [], [("ins", "lda", "", DIRECT, S("sha")), ("label", "sha"), ("data", "db", [N(3)])]),
        ("org", N(start)), ("label", "Lstart"), marker(0x7F),
    ]
    files = {"t.tbl": TABLE, "far.ips": refips.build([(0x3F0000, b"\x01\x02\x03", "plain")])}
    for i, k in enumerate(kinds):
        prog += stmt(k, i, pl)
        if k.startswith("incbin"):
            files[f"f{i}_{k[6:]}.bin"] = bytes((0x41 + j % 26) for j in range(int(k[6:])))
        prog.append(("label", f"L{i}"))
        prog.append(marker(i))
    prog += [("label", "Lend"), ("data", "db", [N(0)]),
             ("org", N(pl["table"])), ("data", "dl", [S(f"L{i}") for i in range(len(kinds))] + [S("Lend")])]
    return prog, files, start


def find_marker(blocks, i):
    pat = bytes([0xDD, 0xEE, i, 0xBB])
    hits = []
    for off, data in blocks:
        p = data.find(pat)
        while p >= 0:
            hits.append(off + p)
            p = data.find(pat, p + 1)
    return hits


def check_program(busname, si, kinds, viol):
    pl = PLACES[busname]
    prog, files, start = build(busname, si, kinds)
    src = render.source(prog)
    bus = refbus.BUILTIN[busname]()
    out = impl.assemble(src, rom=busname, files=files)
    if out.status == "timeout":
        viol.append({"key": "labels:timeout", "msg": src})
        return 0, "TIMEOUT"
    if not out.accepted:
        return 0, "rejected"
    labels = {}
    for name, val in out.labels:
        labels.setdefault(name, val)
    n = len(kinds)
    # table of `.dl` references is the last block
    tbl_off = bus.phys(pl["table"])
    table = next((d for o, d in out.blocks if o == tbl_off), None)
    offs = {}
    for i in list(range(n)) + [0x7F]:
        hits = find_marker(out.blocks, i)
        if len(hits) != 1:
            viol.append({"key": "labels:marker-not-emitted-once", "msg": f"marker {i} found {len(hits)} times :: {src!r}"})
            return 1, "MARKER-LOST"
        offs[i] = hits[0]
    def segment(i):
        """(run address, file offset) base of the segment that label i belongs to; None if unspecified."""
        base_run, base_off = start, bus.phys(start)
        for m in range(i, -1, -1):
            if kinds[m] == "org-here":
                # the run address reached just before statement m = where the byte after marker m-1 (or the start marker) went
                prev = run_of(m - 1) if m > 0 else None
                here = (bus.advance(prev, 4) if prev is not None else None) if m > 0 else bus.advance(start, 4)
                if here is None:
                    return None
                try:
                    if bus.rng(here).ram:
                        return None  # *= to RAM: output offset not compared here
                except refbus.Unmapped:
                    return None
                return here, bus.phys(here)
            if kinds[m] in ("org", "org-zero"):
                base_run = (pl["other"] if kinds[m] == "org" else pl["zero"]) + 0x100 * m
                base_off = bus.phys(base_run)
                break
            if kinds[m] in ("reloc-rom", "reloc-ram"):
                base_run = (pl["rrom"] if kinds[m] == "reloc-rom" else pl["rram"]) + 0x100 * m
                base_off = offs[m - 1] + 4 if m > 0 else offs[0x7F] + 4
                break
        return base_run, base_off

    memo = {}

    def run_of(i):
        """Run address of the byte right after label i (= of marker i), from the marker's real file offset."""
        if i not in memo:
            seg = segment(i)
            memo[i] = None if seg is None else bus.advance(seg[0], offs[i] - seg[1])
        return memo[i]

    for i in range(n):
        expect = run_of(i)
        if expect is None:
            continue
        got = labels.get(f"L{i}")
        ref_in_table = int.from_bytes(table[3 * i:3 * i + 3], "little") if table is not None and len(table) >= 3 * i + 3 else None
        if got != expect or ref_in_table != expect & 0xFFFFFF:
            viol.append({"key": f"labels:shifted-after:{kinds[i]}" if got != expect else f"labels:reference-differs-from-label:{kinds[i]}",
                         "msg": f"label L{i} = {got if got is None else hex(got)} (.dl gives {ref_in_table if ref_in_table is None else hex(ref_in_table)}) "
                                f"but the byte after it is at run address {expect:#x} (file offset {offs[i]:#x}); {busname} :: {src!r}"})
            return 1, "SHIFTED"
    # second oracle: full reference where defined
    v = refasm.RefAsm(bus, files).assemble(prog)
    vs = compare(out, v, "labels:reference", src)
    if vs:
        viol += vs
        return 1, "REFERENCE-DISAGREES"
    nontrivial = 1 if any(k in VARIABLE for k in kinds) else 0
    return nontrivial, "accepted-" + v.status


def run_case(case):
    _, busname, si, n, pre = case
    viol = []
    outcomes = set()
    evals = nt = states = 0
    example = None
    if case[0] == "big":
        seqs = big_sequences()
    else:
        seqs = ([KINDS[k] for k in pre + tail] for tail in itertools.product(range(len(KINDS)), repeat=n - len(pre)))
    for kinds in seqs:
        t, tag = check_program(busname, si, kinds, viol)
        evals += 1
        states += 1
        nt += t
        outcomes.add(tag)
        if example is None and t and tag.startswith("accepted") and n >= 3:
            example = {"kinds": kinds, "bus": busname, "start_index": si}
        if len(viol) > 25:
            break
    return {"evals": evals, "nt_count": nt, "state_count": states, "transitions": states, "outcome": sorted(outcomes),
            "violations": viol[:25], "example": example, "depth": n}
