"""C15 - every input terminates (exhaustive short inputs, fragment sequences, token mutations; deterministic fuel)."""
from __future__ import annotations

import itertools
import re

from mc import fuel, impl
from mc.checks import c12
from mc.gen import render

ID = "C15"
LEVEL = "exploration"
LEVEL_TEXT = ("Complete enumeration of (i) every string of length <=4 (thorough <=5) over a 28-character alphabet with one representative per "
              "scanner character class, (ii) every sequence of <=2 lexical fragments over 74 fragments and of 3 over 42 core fragments (thorough: 3 over all 74, 4 over 24) "
              "(all keywords, openers/closers, operators, comment delimiters, quotes, opcodes, macro/.map pieces) with two separators, "
              "(iii) every character-prefix truncation and every token deletion/duplication of 8 valid programs, (iv) 18 constructs inside every combination of <=3 nested wrappers (block, scope, macro application, loop, conditional) with and without a table. Each input runs through "
              "MZParser.parse_as_ast, Program.assemble_string_with_emitter and (class i) eval_expression_str under a deterministic event "
              "budget F(n)=20000+4000n counted with sys.monitoring on the repository's code only; an input that exhausts it is re-run "
              "with >10x the budget before being reported. The suite feeds well-formed snippets and three malformed ones.")
LEVEL_NOTE = ("Trusted: the event counter (PY_START/JUMP/BRANCH of code under the repository root). Python's recursion limit turns unbounded "
              "recursion into a reported error, which satisfies the property. No wall-clock time enters the verdict (a 30 s alarm per "
              "run is only a safety net against loops in C code). Explicit loop counts in the alphabets are tiny constants.")
TECHNIQUE = "exhaustive enumeration of short inputs / fragment sequences / token mutations under a deterministic step budget"
RULE = ("case = chunk of the enumeration; evaluations = (input, entry point) runs. non-trivial = the run reached a scanner/parser loop "
        "(>= 40 monitored events); measured per run. Inputs are distinct by construction (class i/ii) or by position (class iii).")
ASSUMPTIONS = ["F(n) = 20000 + 4000*n events is > 20x the worst ratio observed on terminating inputs", "second stage 10*F(n) + 3e5 events (40*F(n) + 5e6 for the pathological-nesting family)"]

ALPHABET = ["a", "l", "d", ".", ":", "=", "*", "@", "/", "'", ";", ",", "(", ")", "[", "]", "{", "}", "#", "+", "0", "x", "<", " ", "\t", "\n",
            "\0", "é"]
FRAGMENTS = [
    ".scope", ".table", ".include", ".include_ips", ".incbin", ".pointer", ".text", ".ascii", ".db", ".dw", ".dl", ".macro", ".map", ".if",
    ".else", "else", ".for", ".struct", ".istruct", ".nosuch",
    "{", "}", "{{", "}}", "(", ")", "[", "]", ",", ":=", "=", "*=", "@=", ":", "#",
    "+", "-", "*", "&", "|", "~", "<<", ">>", "==", "!=",
    "/*", "*/", ";", "'", "'abc'", "'ab\\'",
    "lda", "nop", "lda.w", "lda #0x12", "lda (0x12,x)", "bra l", "mm(", "mm(1)", "a", "l:", "a.b", "a.b.c", "0x", "0b", "12", "0x1F",
    "identifier=1", "bank_range=0x00, 0x3f", "mask=0x8000", "writable=1",
    ".for i := 3, 1 {", ".for i := 0, 0-1 {", ".if 0-1 {",
]
FRAGMENTS_T = [".macro", ".if", ".for", ".map", "{", "}", "{{", "(", ")", ",", ":=", "/*", "*/", ";", "'", "lda", "lda.w", "mm(", "a", "l:", "12",
               "identifier=1", "=", "#"]
FRAGMENTS_Q = [".scope", ".include", ".text", ".db", ".macro", ".map", ".if", "else", ".for", "{", "}", "{{", "}}", "(", ")", "[", ",", ":=", "=", "*=",
               ":", "#", "-", "*", "<<", "/*", "*/", ";", "'", "'abc'", "lda", "nop", "lda.w", "lda (0x12,x)", "mm(", "a", "l:", "a.b.c", "0x", "12",
               "identifier=1", "mask=0x8000"]
SEPS = [" ", "\n"]


def bound(tier):
    if tier == "thorough":
        return "all strings <=5 over 28 chars; all fragment sequences <=3 over 74 fragments and 4 over 24 fragments x 2 separators; token mutations of 8 programs"
    return ("all strings <=4 over 28 chars; all fragment sequences <=2 over 74 fragments and of length 3 over 42 core fragments, x 2 separators; "
            "token mutations of 8 programs; 18 constructs x all <=3-deep wrapper nestings x table on/off; pathological nesting/recursion family incl. 72 runaway self-applications (1-3 per level x 6 guards) and all sequences of <=4 mutually referring symbol definitions over 8 lines; all loop-bound pairs in [-3,3]^2")


def cases(tier, seed):
    n = 5 if tier == "thorough" else 4
    for ln in range(0, n + 1):
        if ln <= 2:
            yield ("chars", ln, ())
        elif ln <= 4:
            for c0 in range(len(ALPHABET)):
                yield ("chars", ln, (c0,))
        else:
            for c0 in range(len(ALPHABET)):
                for c1 in range(len(ALPHABET)):
                    yield ("chars", ln, (c0, c1))
    for f0 in range(len(FRAGMENTS)):
        yield ("frags", "full", 3 if tier == "thorough" else 2, (f0,))
    if tier != "thorough":
        for f0 in range(len(FRAGMENTS_Q)):
            yield ("frags", "quick", 3, (f0,))
    if tier == "thorough":
        for f0 in range(len(FRAGMENTS_T)):
            for f1 in range(len(FRAGMENTS_T)):
                yield ("frags", "red", 4, (f0, f1))
    for i in range(8):
        yield ("mutations", i)
    yield ("special",)
    for w0 in range(len(WRAPPERS) + 1):
        yield ("nested", w0)


def describe(case, res):
    d = {"case": list(case), "outcome": res.get("outcome")}
    if res.get("example"):
        d["example"] = res["example"]
    if res.get("worst"):
        d["worst_events_per_input"] = res["worst"]
    return d


def budget(n):
    return 20000 + 4000 * n


def entry_ast(text):
    from a816.parse.mzparser import MZParser
    return lambda: MZParser.parse_as_ast(text, "t.s")


def entry_asm(text):
    from a816.program import Program
    return lambda: Program().assemble_string_with_emitter(text, "t.s", impl.RecWriter())


def entry_expr(text):
    from a816.parse.ast.expression import eval_expression_str
    from a816.symbols import Resolver
    return lambda: eval_expression_str(text, Resolver())


def signature(text):
    i = text.find("/*")
    if i >= 0 and "*/" not in text[i + 2:]:
        return "unterminated-comment"
    return "other"


def run_input(text, entries, viol, stats, big=False):
    n = 0
    for name, mk in entries:
        f1 = budget(len(text))
        f2 = 40 * f1 + 5_000_000 if big else 10 * f1 + 300_000
        import signal
        signal.setitimer(signal.ITIMER_REAL, 30)
        try:
            try:
                status, used, _ = fuel.run(mk(text), f1)
                if status == "exhausted":
                    status, used, _ = fuel.run(mk(text), f2)
                    stats["second_stage"] = stats.get("second_stage", 0) + 1
            finally:
                signal.setitimer(signal.ITIMER_REAL, 0)
        except impl.Timeout:
            status, used = "exhausted", -1
        n += 1
        if used >= 40:
            stats["nt"] = stats.get("nt", 0) + 1
        if status == "exhausted":
            viol.append({"key": f"termination:{name}:{signature(text)}",
                         "msg": f"{name} did not finish within {f2} monitored events on input {text[:200]!r}"})
        else:
            ratio = used / max(len(text), 1)
            if used > stats.get("worst", (0, ""))[0]:
                stats["worst"] = (used, text[:40])
            stats[status] = stats.get(status, 0) + 1
            _ = ratio
    return n


ENTRIES_ALL = [("parse_as_ast", entry_ast), ("assemble_string", entry_asm), ("eval_expression_str", entry_expr)]
ENTRIES_PROG = ENTRIES_ALL[:2]


def finish(evals, viol, stats, example=None):
    oc = []
    if stats.get("done"):
        oc.append("returned")
    if stats.get("raised"):
        oc.append("raised")
    if viol:
        oc.append("NO-TERMINATION")
    return {"evals": max(evals, 1), "nt_count": stats.get("nt", 0), "outcome": oc or ["none"], "violations": viol[:20],
            "worst": stats.get("worst"), "example": example, "extra": {"second_stage_runs": stats.get("second_stage", 0)}}


def run_chars(ln, pre):
    viol = []
    stats = {}
    evals = 0
    for tail in itertools.product(range(len(ALPHABET)), repeat=ln - len(pre)):
        text = "".join(ALPHABET[i] for i in pre + tail)
        evals += run_input(text, ENTRIES_ALL, viol, stats)
        if len(viol) > 20:
            break
    return finish(evals, viol, stats, {"input": "".join(ALPHABET[i] for i in pre) + "..."})


def run_frags(which, ln, pre):
    frs = {"full": FRAGMENTS, "red": FRAGMENTS_T, "quick": FRAGMENTS_Q}[which]
    viol = []
    stats = {}
    evals = 0
    lens = range(len(pre), ln + 1) if which == "full" else [ln]
    for total in lens:
        for tail in itertools.product(range(len(frs)), repeat=total - len(pre)):
            parts = [frs[i] for i in pre + tail]
            for sep in SEPS:
                text = sep.join(parts)
                evals += run_input(text, ENTRIES_PROG, viol, stats)
            if len(viol) > 20:
                break
    return finish(evals, viol, stats, {"input": " ".join(frs[i] for i in pre) + " ..."})


def mutation_sources():
    srcs = []
    for name, prog in c12.programs("low", (("FOO", "5"), ("BAR", "0x3"))).items():
        srcs.append(render.source([("const", "FOO", ("n", 5, "5")), ("const", "BAR", ("n", 3, "3"))] + prog))
    srcs.append("/* header */\n*=0x8000\nstart: ; entry\n    lda.w #0x1234 /* inline */\n    .ascii 'it\\'s'\n    jmp start\n")
    return srcs


def run_mutations(i):
    src = mutation_sources()[i]
    viol = []
    stats = {}
    evals = 0
    impl.write_files(dict(c12.FILES, **{"inc.s": "fromfile:\n.dw fromfile\n"}))
    for cut in range(len(src)):
        evals += run_input(src[:cut], ENTRIES_PROG, viol, stats)
    toks = [(m.start(), m.end()) for m in re.finditer(r"\S+", src)]
    for a, b in toks:
        evals += run_input(src[:a] + src[b:], ENTRIES_PROG, viol, stats)          # deletion
        evals += run_input(src[:b] + " " + src[a:b] + src[b:], ENTRIES_PROG, viol, stats)  # duplication
        if len(viol) > 20:
            break
    return finish(evals, viol, stats, {"program": src[:80]})


def run_special():
    viol = []
    stats = {}
    evals = 0
    from mc.ref import ips as refips
    good = refips.build([(0x1000, bytes(range(20)), "plain"), (0x2000, (9, 0x55), "rle"), (0x3000, b"\xAA" * 300, "plain")])
    ipsfiles = {f"cut{c}.ips": good[:c] for c in list(range(0, 40)) + [len(good) - 3, len(good) - 1]}
    ipsfiles.update({"hdr.ips": b"PATCH", "empty.ips": b"", "junk.ips": b"\x00" * 64, "ok.ips": good})
    impl.write_files(dict(ipsfiles, **{"self.s": ".include 'self.s'\n", "a.s": ".include 'b.s'\n", "b.s": ".include 'a.s'\n"}))
    texts = [".include 'self.s'\n", ".include 'a.s'\n", ".macro r() {\nr()\n}\nr()\n", ".macro r(n) {\n.db n\nr(n+1)\n}\nr(0)\n",
             "{" * 400, "(" * 400, "lda " + "(" * 300, "a" * 2000, "'" + "a" * 2000, ".db " + "1," * 500, "/*" * 50, "/* a */" * 50 + "/*",
             ".macro apply(body) {\n{{body}}\n}\napply({\nnop\n{{body}}\n})\n", ".macro ap2(a, b) {\n{{a}}\n}\nap2({\n{{b}}\n}, {\n{{a}}\n})\n",
             ".for i := 0, 300 {\n.db i\n}\n", ".macro m(a) {\n.if a {\nm(a-1)\n}\n}\nm(300)\n", "-" * 500 + "1", "~" * 300 + "1", "l: " * 300]
    texts += [f"*=0x018000\n.include_ips '{name}', 0\n.db 1\n" for name in sorted(ipsfiles)]
    # unterminated strings of growing length (a scan time that doubles per character shows up as budget exhaustion)
    texts += [".ascii '" + "a" * n for n in (8, 16, 24, 32, 48, 64, 200)] + [".ascii '" + "ab " * n + "\n.db 1\n" for n in (10, 20, 40)]
    # runaway recursion: a macro that applies itself k times per level, each application behind a guard; the first
    # application already exhausts the recursion limit, which must end the assembly (not be retried level by level)
    for k in (1, 2, 3):
        for guard in ("", ".if en {", "{", ".for q := 0, 1 {", ".if nosuchname {\n} .else {", ".scope gs {"):
            for emit in ("", ".db 1\n"):
                app = (guard + "\n" + emit + "grow()\n" + ("}\n" if guard else "")) * k
                texts.append("en := 1\n.macro grow() {\n" + app + "}\ngrow()\n")
                texts.append("en := 1\n.macro grow(n) {\n" + app.replace("grow()", "grow(n+1)") + "}\n*=0x018000\ngrow(0)\n")
    # statements that end on / run past the last byte of the highest mapped bank (built-in and user mappings)
    for org in ("0x6fffff", "0x6ffffd", "0xcfffff", "0xcffffd", "0xffffff", "0xfffffd", "0x7dffff", "0x7fffff"):
        for st in (".db 0x60", ".dl 0x123456", ".dw 1, 2, 3", "lda.l 0x123456", ".ascii 'abcdef'", "l:\n.dl l"):
            texts.append(f"*={org}\n{st}\nafter:\n.db 1\n")
    texts.append(".map identifier=1 bank_range=0x10, 0x11 addr_range=0x8000, 0xffff mask=0x8000\n*=0x11fffe\n.dl 0x123456\n.db 1\n")
    texts.append(".map identifier=1 bank_range=0xfe, 0xff addr_range=0x0000, 0xffff mask=0x10000\n*=0xfffffe\n.dl 0x123456\n.db 1\n")
    # symbol definitions that refer to each other, to themselves or to nothing: all sequences of <=4 lines
    import itertools as _it
    sym_lines = ["a := 0", "a = a + 1", "a = b", "b = a + 1", "b = nope", ".db a", "a:", "b := a"]
    for nl in (1, 2, 3, 4):
        for seq in _it.product(sym_lines, repeat=nl):
            texts.append("\n".join(seq) + "\n")
    for t in texts:
        evals += run_input(t, ENTRIES_PROG, viol, stats, big=True)
        if len(viol) > 20:
            break  # the run already fails; every further non-terminating input would cost its whole budget
    # every loop-bound pair, literal and through constants / macro parameters: empty and reversed ranges must simply end
    for a in range(-3, 4):
        for b in range(-3, 4):
            lo = str(a) if a >= 0 else f"0-{-a}"
            hi = str(b) if b >= 0 else f"0-{-b}"
            for t in (f".for i := {lo}, {hi} {{\n.db i\n}}\n",
                      f"ka := {lo}\nkb := {hi}\n.for i := ka, kb {{\n.db i\n}}\n",
                      f".macro pad(n) {{\n.for i := 0, n {{\n.db 0\n}}\n}}\npad({hi})\n",
                      f".macro rep(a, b) {{\n.for i := a, b {{\n.for j := b, a {{\n.db i\n}}\n}}\n}}\nrep({lo}, {hi})\n"):
                evals += run_input(t, ENTRIES_PROG, viol, stats)
    return finish(evals, viol, stats, {"input": "pathological nesting / recursion / long tokens; all loop-bound pairs in [-3,3]^2 (literal, constants, macro parameters)"})


WRAPPERS = ["block", "scope", "macro", "for", "if"]
CONSTRUCTS = [".text 'ab'", ".db 1, 2", "lda.w #0x1234", "lbl:\n.dw lbl", "inner(3)", ".incbin 'blob.bin'", "{{blk}}", ".ascii 'x'", ".dl outer_lbl",
              ".if 1 {\n.db 1\n} else {\n.db 2\n}", ".for q := 0, 2 {\n.db q\n}", "nop", "bra outer_lbl", "zz = 5\n.db zz", "yy := 6\n.db yy",
              "nosuchmacro(1)", ".dw nosuchsymbol", ".table 't.tbl'\n.text 'ba'"]


def wrap(kind, body, level):
    if kind == "block":
        return "{\n" + body + "\n}"
    if kind == "scope":
        return f".scope ns{level} {{\n" + body + "\n}"
    if kind == "for":
        return f".for it{level} := 0, 2 {{\n" + body + "\n}"
    if kind == "if":
        return ".if 1 {\n" + body + "\n}"
    return f".macro wr{level}(blk) {{\n" + body + f"\n}}\nwr{level}({{\n.db 0x7{level}\n}})"


def run_nested(w0):
    """Every construct inside every combination of up to 3 nested wrappers (blocks, named scopes, macro applications, loops,
    conditionals), with and without a table loaded at top level: all must end (most assemble, some are errors)."""
    viol = []
    stats = {}
    evals = 0
    impl.write_files(dict(c12.FILES, **{"t.tbl": "10=a\n20=b\n"}))
    combos = [()] if w0 == len(WRAPPERS) else [(WRAPPERS[w0],) + rest for n in range(0, 3) for rest in itertools.product(WRAPPERS, repeat=n)]
    for combo in combos:
        for c in CONSTRUCTS:
            body = c
            for level, k in enumerate(reversed(combo)):
                body = wrap(k, body, level)
            for table in (True, False):
                text = (".table 't.tbl'\n" if table else "") + ".macro inner(v) {\n.db v\n}\n*=0x018000\nouter_lbl:\n" + body + "\n"
                evals += run_input(text, ENTRIES_PROG, viol, stats)
        if len(viol) > 20:
            break
    return finish(evals, viol, stats, {"input": "constructs nested in " + "/".join(combos[-1]) if combos[-1] else "top level"})


def run_case(case):
    if case[0] == "nested":
        return run_nested(case[1])
    if case[0] == "chars":
        return run_chars(case[1], case[2])
    if case[0] == "frags":
        return run_frags(case[1], case[2], case[3])
    if case[0] == "mutations":
        return run_mutations(case[1])
    return run_special()
