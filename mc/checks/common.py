"""Shared oracle: compare an implementation Outcome with a reference Verdict."""
from __future__ import annotations


def fmt_blocks(blocks, limit=4):
    return " ".join(f"{'?' if a is None else format(a, '06x')}:{b[:12].hex()}{'..' if len(b) > 12 else ''}" for a, b in blocks[:limit])


def compare(out, v, prefix, src, labels=True, symbols=None):
    """Returns a list of violation dicts (empty when the outcome matches the verdict)."""
    viol = []
    if v.status == "unspec":
        return viol
    if v.status == "fail":
        if out.accepted:
            viol.append({"key": f"{prefix}:invalid-program-accepted", "msg": f"reference: must be rejected ({v.reason}); got {out.brief()} :: {src!r}"})
        return viol
    if not out.accepted:
        viol.append({"key": f"{prefix}:valid-program-rejected", "msg": f"{out.brief()} :: {src!r}"})
        return viol
    got = list(out.blocks)
    if v.extra_calls:
        # .include_ips records are written when reached; remove them (in order) before comparing host blocks
        rest = list(v.extra_calls)
        kept = []
        for b in got:
            if rest and b == rest[0]:
                rest.pop(0)
            else:
                kept.append(b)
        if rest:
            viol.append({"key": f"{prefix}:include-ips-records", "msg": f"patch records missing/misplaced :: {src!r}"})
            return viol
        got = kept
    exp = v.blocks
    bad = len(got) != len(exp)
    if not bad:
        for (ga, gd), (ea, ed) in zip(got, exp):
            if gd != ed:
                bad = "bytes"
                break
            if ea is not None and ga != ea:
                bad = "offset"
                break
    if bad:
        kind = bad if isinstance(bad, str) else "block-structure"
        viol.append({"key": f"{prefix}:wrong-{kind}", "msg": f"expected {fmt_blocks(exp)} got {fmt_blocks(got)} :: {src!r}"})
        return viol
    if labels and sorted(out.labels) != sorted(v.labels):
        viol.append({"key": f"{prefix}:wrong-label-values",
                     "msg": f"labels {sorted(out.labels)} expected {sorted(v.labels)} :: {src!r}"})
        return viol
    if symbols:
        for n in symbols:
            if out.symbols.get(n) != v.symbols.get(n):
                viol.append({"key": f"{prefix}:wrong-symbol-value", "msg": f"{n}: {out.symbols.get(n)} expected {v.symbols.get(n)} :: {src!r}"})
                break
    return viol
