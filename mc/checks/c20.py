"""C20 - legacy address conversions agree with the assembler's mapping (complete enumeration)."""
from __future__ import annotations

import struct

from mc.ref import bus as refbus

ID = "C20"
LEVEL = "exploration"
LEVEL_TEXT = ("Complete enumeration of the finite domain: every ROM offset 0..0x3FFFFF under each of the three modes "
              "(both tiers), "
              "each checked against the textbook closed form, the round trip, and the real Bus; pointer formulas over "
              "a boundary (base, p) grid and all 2^16 byte patterns. One unit test converts one offset; this decides all of them.")
LEVEL_NOTE = ("Trusted: closed forms in this file and mc/ref/bus.py. Bus agreement is required only where the built-in bus maps "
              "the address as ROM (LoROM primary o<0x380000, LoROM mirror o<0x280000, HiROM mirror everywhere).")
TECHNIQUE = "exhaustive enumeration of all ROM offsets x 3 modes against closed forms and the real Bus mapping"
RULE = ("cases = (mode, 32K chunk of the 4 MiB offset space) x 3 modes, every offset of the chunk evaluated through rom_to_snes, snes_to_rom and Bus.get_address().physical; plus pointer-formula grids. "
        "non-trivial = offset within 2 of a 32K bank boundary (each (mode, offset) is visited once) or a (base,p) pair whose sum "
        "crosses a bank boundary.")
ASSUMPTIONS = ["textbook LoROM/HiROM closed forms", "low_rom_2 round trip only claimed below offset 0x200000 (statement)"]
MODES = ("low_rom", "low_rom_2", "high_rom")
BASES = [0, 1, 0x7FFF, 0x8000, 0x12F000, 0x00FFFF, 0x8001, 0xFFFF, 0x10000, 0x12345, 0x1F8000, 0x1FFFFF, 0x200000, 0x37FE00, 0x3F0000]


def bound(tier):
    return ("all 4194304 offsets x 3 modes; pointer grid 13 bases x (0..0x1FF + boundary p); 65536 byte pairs x 4 bases"
            if tier == "thorough" else
            "all 4194304 offsets x 3 modes; pointer grid 13 bases; 65536 byte pairs x 1 base")


def cases(tier, seed):
    for mode in MODES:
        for chunk in range(128):
            yield ("conv", mode, chunk, tier)
    yield ("interleaved",)
    for base in BASES:
        yield ("lptr", base)
    for base in (BASES if tier == "thorough" else BASES[3:4]):
        yield ("rel16", base)


def describe(case, res):
    return {"case": list(case), "outcome": res.get("outcome"), "evaluations": res.get("evals")}


def expected_snes(o, mode):
    if mode == "low_rom":
        return ((o >> 15) << 16) | 0x8000 | (o & 0x7FFF)
    if mode == "low_rom_2":
        return (((o >> 15) + 0x80) << 16) | 0x8000 | (o & 0x7FFF)
    return 0xC00000 + o


def run_case(case):
    from a816.cpu.cpu_65c816 import RomType, rom_to_snes, snes_to_rom
    from a816.symbols import BUS_MAPPING
    viol = []
    kind = case[0]
    if kind == "conv":
        _, mode, chunk, tier = case
        rt = RomType[mode]
        lo = chunk << 15
        offs = range(lo, lo + 0x8000)  # complete in both tiers (6 s on 16 cores)
        busname = "high_rom" if mode == "high_rom" else "low_rom"
        real_bus = BUS_MAPPING[RomType[busname]]
        ref_bus = refbus.BUILTIN[busname]()
        n = nt = inbus = 0
        for o in offs:
            n += 1
            if (o & 0x7FFF) <= 2 or (o & 0x7FFF) >= 0x7FFD:
                nt += 1
            exp = expected_snes(o, mode)
            got = rom_to_snes(o, rt)
            if got != exp:
                viol.append({"key": f"legacy:rom_to_snes-{mode}", "msg": f"rom_to_snes({o:#x},{mode})={got:#x}, expected {exp:#x}"})
                if len(viol) > 8:
                    break
                continue
            if mode != "low_rom_2" or o < 0x200000:
                back = snes_to_rom(got)
                if back != o:
                    viol.append({"key": f"legacy:snes_to_rom-{mode}", "msg": f"snes_to_rom({got:#x})={back:#x}, expected {o:#x}"})
                    if len(viol) > 8:
                        break
            # agreement with the assembler's mapping wherever it maps that address as ROM
            try:
                rp = ref_bus.phys(exp)
            except refbus.Unmapped:
                rp = None
            if rp is not None:
                inbus += 1
                try:
                    bp = real_bus.get_address(got).physical
                except Exception as e:  # noqa: BLE001
                    bp = repr(e)
                if bp != o or rp != o:
                    viol.append({"key": f"legacy:bus-disagrees-{mode}",
                                 "msg": f"offset {o:#x} -> {got:#x}; Bus offset {bp}, reference {rp}"})
                    if len(viol) > 8:
                        break
        return {"evals": n, "nt_count": nt, "outcome": f"{mode}:{'in-bus' if inbus else 'outside-bus'}",
                "extra": {"bus_agreement_checked": inbus}, "violations": viol}
    if kind == "interleaved":
        # conversions of different modes interleaved call by call: a result must not depend on what was converted before
        n = 0
        offs = [0, 1, 0x7FFF, 0x8000, 0xFFFF, 0x10000, 0x18000, 0x1FFFFF, 0x200000, 0x208000, 0x3F8000, 0x3FFFFF]
        for a_mode in MODES:
            for b_mode in MODES:
                for oa in offs:
                    for ob in offs:
                        if b_mode == "low_rom_2" and ob >= 0x200000:
                            continue
                        rom_to_snes(oa, RomType[a_mode])
                        back = snes_to_rom(expected_snes(ob, b_mode))
                        n += 1
                        if back != ob:
                            viol.append({"key": f"legacy:snes_to_rom-depends-on-previous-call:{b_mode}",
                                         "msg": f"after rom_to_snes({oa:#x},{a_mode}), snes_to_rom({expected_snes(ob, b_mode):#x}) = {back:#x}, expected {ob:#x}"})
                            break
                        got = rom_to_snes(ob, RomType[b_mode])
                        if got != expected_snes(ob, b_mode):
                            viol.append({"key": f"legacy:rom_to_snes-depends-on-previous-call:{b_mode}", "msg": f"{ob:#x} {b_mode}: {got:#x}"})
                            break
        from script.formulas import base_relative_16bits_pointer_formula, long_low_rom_pointer
        convs = [(b, long_low_rom_pointer(b), base_relative_16bits_pointer_formula(b)) for b in BASES]
        for p_ in (0, 12, 0x7FFF, 0x8000, 0x1234):
            for b, lp, br in convs:
                if b + p_ <= 0x3FFFFF:
                    n += 1
                    a = expected_snes(b + p_, "low_rom")
                    if lp(p_) != struct.pack("<I", a)[:3]:
                        viol.append({"key": "legacy:long_low_rom_pointer", "msg": f"interleaved converters: base {b:#x} p {p_:#x}: {lp(p_)!r}"})
                v = bytes((p_ & 0xFF, (p_ >> 8) & 0xFF))
                if br(v) != (p_ & 0xFFFF) + b:
                    viol.append({"key": "legacy:base_relative_16bits", "msg": f"interleaved: base {b:#x} value {p_:#x}: {br(v):#x}"})
        return {"evals": n, "nt_count": n, "outcome": "interleaved", "violations": viol[:6]}
    if kind == "lptr":
        from script.formulas import long_low_rom_pointer
        base = case[1]
        f = long_low_rom_pointer(base)
        ps = set(range(0x200)) | {0x7FFE, 0x7FFF, 0x8000, 0x8001, 0xFFFF, 0x10000, 0x1234, 0x48000}
        n = nt = 0
        kept = []
        for p in sorted(ps):
            o = base + p
            if o > 0x3FFFFF:
                continue
            n += 1
            if (o >> 15) != (base >> 15):
                nt += 1
            a = expected_snes(o, "low_rom")
            exp = struct.pack("<I", a)[:3]
            got = f(p)
            kept.append((p, got, exp))
            if got != exp:
                viol.append({"key": "legacy:long_low_rom_pointer", "msg": f"base {base:#x} p {p:#x}: {got!r} expected {exp!r}"})
                break
        # the values are looked at AGAIN after all calls were made (a converter must hand out values, not a shared buffer)
        for p, got, exp in kept:
            if bytes(got) != exp and not viol:
                viol.append({"key": "legacy:long_low_rom_pointer", "msg": f"base {base:#x} p {p:#x}: the value returned earlier now reads {bytes(got)!r}, expected {exp!r} (later calls changed it)"})
                break
        return {"evals": n, "nt_count": nt, "outcome": "lptr", "violations": viol}
    from script.formulas import base_relative_16bits_pointer_formula
    base = case[1]
    f = base_relative_16bits_pointer_formula(base)
    n = 0
    for v in range(0x10000):
        n += 1
        b = bytes((v & 0xFF, v >> 8))
        got = f(b)
        if got != v + base:
            viol.append({"key": "legacy:base_relative_16bits", "msg": f"base {base:#x} bytes {b.hex()}: {got:#x} expected {v + base:#x}"})
            break
        if v % 257 == 0:
            # records that carry more than the pointer (a third attribute byte): only the 16-bit value is decoded
            for extra in (b"\x01", b"\xff\x7f"):
                try:
                    got3 = f(b + extra)
                except Exception:  # noqa: BLE001 - refusing a longer record is acceptable
                    continue
                n += 1
                if got3 != v + base:
                    viol.append({"key": "legacy:base_relative_16bits", "msg": f"base {base:#x} bytes {(b + extra).hex()}: {got3:#x} expected {v + base:#x} (bytes after the 16-bit value are not part of it)"})
                    break
    return {"evals": n, "nt_count": 256, "outcome": "rel16", "violations": viol}
