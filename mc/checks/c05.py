"""C05 - relative branches encode the true displacement or are rejected (complete displacement range)."""
from __future__ import annotations

from mc import impl
from mc.ref import bus as refbus
from mc.ref import isa

ID = "C05"
LEVEL = "exploration"
LEVEL_TEXT = ("Complete enumeration of branch mnemonic x every displacement from -160 to +160 (thorough -400..+400) x "
              "form (forward label, backward label, literal target) x placement in the bank window (start, middle, target on "
              "the last byte, branch on the last two bytes) x relocation (none, @= to ROM, origin at file offset 0 reached after other output, @= to RAM with ROM/RAM target, RAM "
              "target from ROM) x LoROM/HiROM; each program assembled by the real assembler, whole output compared with the "
              "displacement formula or required to be rejected. One unit test checks one displacement of -5.")
LEVEL_NOTE = ("Trusted: displacement formula target-(branch+2) on run addresses, mc/ref/bus.py for offsets. Cross-bank branches are "
              "outside the claim except LoROM neighbours across a bank end (0x8000 apart as run addresses: out of range). bvc/bvs/brl are not in a816's table; they only have to be rejected or correct.")
TECHNIQUE = "exhaustive enumeration of displacement range x placements x relocations against the displacement formula"
RULE = ("case = (bus, mnemonic, form, placement, relocation); it assembles one program per displacement of the range. "
        "evaluations = programs assembled. non-trivial = |d| within 4 of a range edge (-128 or +127), or a RAM-space case; "
        "every (case, d) program text is distinct.")
ASSUMPTIONS = ["rejected = error return or any exception", "same-bank, in-window programs only"]

SUPPORTED = ["bcc", "bcs", "beq", "bmi", "bne", "bpl", "bra"]
UNSUPPORTED = ["bvc", "bvs"]
BUSES = {"low_rom": (0x01, 0x8000, 0x10000), "high_rom": (0x41, 0x0000, 0x10000)}  # bank, window lo, window hi


def bound(tier):
    r = 400 if tier == "thorough" else 160
    return f"7 supported + 2 unsupported branch mnemonics x d in [-{r},{r}] x 3 forms x 4 placements x 3 origins/relocations x 2 buses + RAM-space families + same source alternately under both mappings in one process + the .b suffix + far same-bank targets, LoROM branches across a bank end, branches after an .incbin of 16..4096 bytes, forward branches to a label shadowing an outer one"


def cases(tier, seed):
    r = 400 if tier == "thorough" else 160
    for busname in BUSES:
        for mn in SUPPORTED + UNSUPPORTED:
            for form in ("forward", "backward", "literal"):
                for place in ("start", "middle", "target-last", "branch-last"):
                    for reloc in ("none", "rom", "org0"):
                        yield ("rom", busname, mn, form, place, reloc, r)
        for mn in SUPPORTED:
            yield ("two-mappings", busname, mn)
            yield ("extras", busname, mn)
            for fam in ("ram-run-rom-target", "rom-run-ram-target", "ram-run-ram-target", "ram-run-rom-literal"):
                yield ("ram", busname, mn, fam)


def describe(case, res):
    d = {"case": list(case), "outcome": res.get("outcome")}
    if res.get("example"):
        d["example"] = res["example"]
    return d


def filler(n):
    out = []
    while n > 0:
        k = min(n, 64)
        out.append(".db " + ", ".join(["0"] * k))
        n -= k
    return "\n".join(out) + ("\n" if out else "")


def build(busname, mn, form, place, reloc, d):
    """Return (source, expected blocks or None if must be rejected) or None when the combination does not exist."""
    bank, wlo, whi = BUSES[busname]
    if reloc == "org0":
        # the branch lives in the bank stored at file offset 0, reached by a *= AFTER something was emitted elsewhere
        bank = 0x00 if busname == "low_rom" else 0x40
    store_bank = bank
    run_bank = bank + 1 if reloc == "rom" else bank  # @= to another ROM bank: run addresses live there
    base = (run_bank << 16)
    # choose the branch's run offset inside the window
    if form == "forward":
        if d < 0:
            return None
        if place == "start":
            br = wlo
        elif place == "middle":
            br = wlo + 0x4000
        elif place == "target-last":
            br = whi - 1 - d - 2
        else:
            return None  # forward target would be in the next bank
        start = br
        body = f"{mn} tgt\n" + filler(d) + "tgt:\n.db 0xEA\n"
        exp_data = lambda bb: bb + bytes(d) + b"\xEA"  # noqa: E731
    elif form == "backward":
        if d > -2:
            return None
        k = -d - 2
        if place == "start":
            start = wlo
        elif place == "middle":
            start = wlo + 0x4000
        elif place == "branch-last":
            start = whi - 2 - k
        else:
            return None
        br = start + k
        body = "tgt:\n" + filler(k) + f"{mn} tgt\n"
        exp_data = lambda bb: bytes(k) + bb  # noqa: E731
    else:
        if place == "start":
            br = wlo
        elif place == "middle":
            br = wlo + 0x4000
        elif place == "target-last":
            br = whi - 1 - d - 2
        else:
            br = whi - 2
        start = br
        tgt = br + 2 + d
        if not (wlo <= tgt < whi) or not (wlo <= br <= whi - 2):
            return None
        body = f"{mn} 0x{base + tgt:06x}\n"
        exp_data = lambda bb: bb  # noqa: E731
    if not (wlo <= start < whi):
        return None
    src = f"*=0x{(store_bank << 16) + start:06x}\n"
    if reloc == "org0":
        src = f"*=0x{((store_bank + 2) << 16) + wlo + 0x100:06x}\n.db 0x55, 0x56\n" + src
    if reloc == "rom":
        src += f"@=0x{base + start:06x}\n"
    src += body
    ref = refbus.BUILTIN[busname]()
    off = ref.phys((store_bank << 16) + start)
    pre = [(ref.phys(((store_bank + 2) << 16) + wlo + 0x100), b"\x55\x56")] if reloc == "org0" else []
    if mn in SUPPORTED and -128 <= d <= 127:
        op = isa.BY_MNEMONIC[mn]["rel"]
        return src, pre + [(off, exp_data(bytes([op, d & 0xFF])))]
    return src, None


def run_rom(busname, mn, form, place, reloc, r):
    viol = []
    n = nt = 0
    outcomes = set()
    example = None
    for d in range(-r, r + 1):
        b = build(busname, mn, form, place, reloc, d)
        if b is None:
            continue
        src, exp = b
        out = impl.assemble(src, rom=busname)
        n += 1
        edge = min(abs(d - 127), abs(d + 128)) <= 4
        if edge:
            nt += 1
        if mn in SUPPORTED and place == "middle" and reloc == "none" and (edge or d % 16 == 0):
            # the explicit one-byte size (bne.b): same encoding, same range
            srcb = src.replace(f"{mn} ", f"{mn}.b ", 1)
            outb = impl.assemble(srcb, rom=busname)
            n += 1
            if (exp is None and outb.accepted) or (exp is not None and (not outb.accepted or outb.blocks != exp)):
                viol.append({"key": f"branch:byte-suffix-changes-the-result:{form}", "msg": f"{busname} d={d}: `{mn}.b` gives {outb.brief()[-80:]}, `{mn}` gives {out.brief()[-80:]} :: {srcb[:120]!r}"})
                outcomes.add("SUFFIX-DIFFERS")
        if exp is None:
            if out.accepted:
                if mn in UNSUPPORTED and -128 <= d <= 127:
                    # not in a816's table: accepted is fine only with the ISA encoding
                    op = isa.BY_MNEMONIC[mn]["rel"]
                    data = b"".join(x for _, x in out.blocks)
                    if bytes([op, d & 0xFF]) in data and len(out.blocks) == 1:
                        outcomes.add("unsupported-correct")
                        continue
                viol.append({"key": f"branch:out-of-range-accepted:{form}:{reloc}" if mn in SUPPORTED else f"branch:misassembled:{mn}",
                             "msg": f"{busname} d={d} must be rejected, got {out.brief()} :: {src[:120]!r}"})
                outcomes.add("OUT-OF-RANGE-ACCEPTED")
            else:
                outcomes.add("rejected-as-required")
        else:
            if not out.accepted:
                viol.append({"key": f"branch:in-range-rejected:{form}:{reloc}",
                             "msg": f"{busname} d={d} must assemble, got {out.brief()} :: {src[:120]!r}"})
                outcomes.add("IN-RANGE-REJECTED")
            elif out.blocks != exp:
                viol.append({"key": f"branch:wrong-displacement:{form}:{reloc}",
                             "msg": f"{busname} {mn} d={d}: expected {exp[0][0]:06x}:{exp[0][1][-12:].hex()} got {out.brief()[-60:]} :: {src[:100]!r}"})
                outcomes.add("WRONG-DISPLACEMENT")
            else:
                outcomes.add("encoded-correctly")
                if example is None and edge:
                    example = {"source": src, "blocks": out.brief()[-80:], "d": d}
        if len(viol) > 12:
            break
    return {"evals": max(n, 1), "nt_count": nt, "outcome": sorted(outcomes) or ["no-such-combination"], "violations": viol,
            "example": example}


def run_ram(busname, mn, fam):
    bank, wlo, whi = BUSES[busname]
    org = (bank << 16) + wlo
    viol = []
    n = 0
    outcomes = set()
    example = None
    for k in (0, 1, 3, 40, 125, 126, 127, 200):
        for ram in (0x7E0000, 0x7E2000, 0x7FFF00):
            if fam == "ram-run-rom-target":
                src = f"*=0x{org:06x}\ntgt:\n" + filler(k) + f"@=0x{ram:06x}\n{mn} tgt\n"
            elif fam == "ram-run-rom-literal":
                src = f"*=0x{org:06x}\n" + filler(k) + f"@=0x{ram:06x}\n{mn} 0x{org + 4:06x}\n"
            elif fam == "rom-run-ram-target":
                src = f"*=0x{org:06x}\n" + filler(k) + f"{mn} 0x{ram + k:06x}\n"
            else:
                src = f"*=0x{org:06x}\n@=0x{ram:06x}\ntgt:\n" + filler(k) + f"{mn} tgt\n"
            out = impl.assemble(src, rom=busname)
            n += 1
            if out.accepted:
                viol.append({"key": f"branch:ram-space-accepted:{fam}",
                             "msg": f"{busname}: branch with run address or target in RAM space must be rejected, got {out.brief()} :: {src[:140]!r}"})
                outcomes.add("RAM-ACCEPTED")
            else:
                outcomes.add("ram-rejected")
                if example is None:
                    example = {"source": src, "result": out.brief()}
    return {"evals": n, "nt_count": n, "outcome": sorted(outcomes), "violations": viol[:6], "example": example}


def run_two_mappings(first_bus, mn):
    """The same sources (targets in banks that exist under BOTH built-in mappings: C0-CF) assembled alternately under
    the two mappings in one process: each result must be the one that mapping gives on its own."""
    viol = []
    n = 0
    order = [first_bus, "high_rom" if first_bus == "low_rom" else "low_rom", first_bus]
    op = isa.BY_MNEMONIC[mn]["rel"]
    for addr in (0xC18100, 0xC1FF00, 0xC28110):
        for d in (-2, 0, 5, 127, -128):
            tgt = addr + 2 + d
            src = f"*=0x{addr:06x}\n{mn} 0x{tgt:06x}\n"
            for busname in order:
                ref = refbus.BUILTIN[busname]()
                out = impl.assemble(src, rom=busname)
                n += 1
                exp = [(ref.phys(addr), bytes([op, d & 0xFF]))]
                if not out.accepted or out.blocks != exp:
                    viol.append({"key": "branch:result-depends-on-earlier-assembly-under-another-mapping",
                                 "msg": f"{busname} (sequence {order}): expected {exp[0][0]:06x}:{exp[0][1].hex()} got {out.brief()} :: {src!r}"})
    return {"evals": n, "nt_count": n, "outcome": "two-mappings-ok" if not viol else "TWO-MAPPINGS-DIFFER", "violations": viol[:6]}


def run_extras(busname, mn):
    """(a) same-bank targets a whole bank away (displacement about +-65500: must be rejected, never reduced modulo the bank);
    (b) a branch after a large .incbin (the position bookkeeping must follow the file); (c) a forward branch to a label that
    shadows an outer label of the same name (the local one is the target)."""
    bank, wlo, whi = BUSES[busname]
    ref = refbus.BUILTIN[busname]()
    op = isa.BY_MNEMONIC[mn]["rel"]
    viol = []
    n = 0
    outcomes = set()
    base = bank << 16
    # (a)
    for br_off, tgt_off in ((whi - 0x10, wlo + 5), (whi - 2, wlo), (wlo, whi - 1), (wlo + 0x20, whi - 0x10), (whi - 0x80, wlo + 0x7F)):
        for literal in (True, False):
            if literal:
                src = f"*=0x{base + br_off:06x}\n{mn} 0x{base + tgt_off:06x}\n"
            elif tgt_off < br_off:
                src = f"*=0x{base + tgt_off:06x}\nfar:\n.db 1\n*=0x{base + br_off:06x}\n{mn} far\n"
            else:
                src = f"*=0x{base + br_off:06x}\n{mn} far\n*=0x{base + tgt_off:06x}\nfar:\n.db 1\n"
            out = impl.assemble(src, rom=busname)
            n += 1
            if out.accepted:
                viol.append({"key": "branch:out-of-range-accepted:far-same-bank", "msg": f"{busname}: {out.brief()} :: {src!r}"})
                outcomes.add("FAR-ACCEPTED")
            else:
                outcomes.add("far-rejected")
    # (a2) LoROM only: the branch at the end of a bank and its target at the start of the NEXT bank (or the other way round) are
    # neighbours in the file but 0x8000 apart as run addresses: out of range, must be rejected (under HiROM consecutive banks
    # are numerically contiguous, the statement is silent there)
    if busname == "low_rom":
        for base in (bank << 16, (bank + 1) << 16):  # odd->even and even->odd neighbours (two LoROM banks share one 64 KiB chunk of the file)
            for k in (0, 1, 2, 5, 100):
                cross = [f"*=0x{base + whi - 2 - k:06x}\n{mn} nxt\n" + filler(k) + "nxt:\n.db 0xEA\n",
                         f"*=0x{base + whi - 4 - k:06x}\nprv:\nnop\nnop\nnop\nnop\n" + filler(k) + f"{mn} prv\n",
                         f"*=0x{base + whi - 2:06x}\n{mn} 0x{base + 0x10000 + wlo + k:06x}\n"]
                for src in cross:
                    out = impl.assemble(src, rom=busname)
                    n += 1
                    if out.accepted:
                        viol.append({"key": "branch:out-of-range-accepted:next-bank", "msg": f"{busname}: branch and target are in different banks, 0x8000 apart as run addresses: {out.brief()} :: {src!r}"})
                        outcomes.add("CROSS-BANK-ACCEPTED")
                    else:
                        outcomes.add("cross-bank-rejected")
    base = bank << 16
    # (b)
    for size in (0x10, 0x3FF, 0x400, 0x401, 0x1000):
        for d in (-128, -3, 0, 5, 127, 128, -129):
            blob = bytes((i * 3 + 1) & 0xFF for i in range(size))
            start = base + wlo + 0x100
            if d < 0:
                k = -d - 2
                if k < 0:
                    continue
                src = f"*=0x{start:06x}\n.incbin 'blob{size}.bin'\ntgt:\n" + filler(k) + f"{mn} tgt\n"
                exp = blob + bytes(k) + bytes([op, d & 0xFF])
            else:
                src = f"*=0x{start:06x}\n.incbin 'blob{size}.bin'\n{mn} tgt\n" + filler(d) + "tgt:\n.db 0xEA\n"
                exp = blob + bytes([op, d & 0xFF]) + bytes(d) + b"\xEA"
            out = impl.assemble(src, rom=busname, files={f"blob{size}.bin": blob})
            n += 1
            if -128 <= d <= 127:
                if not out.accepted or out.blocks != [(ref.phys(start), exp)]:
                    viol.append({"key": "branch:wrong-displacement:after-incbin", "msg": f"{busname} size={size:#x} d={d}: {out.brief()[-70:]} :: {src[:90]!r}"})
                    outcomes.add("AFTER-INCBIN-WRONG")
                else:
                    outcomes.add("after-incbin-ok")
            elif out.accepted:
                viol.append({"key": "branch:out-of-range-accepted:after-incbin", "msg": f"{busname} size={size:#x} d={d}: {out.brief()[-70:]}"})
    # (c)
    for outer_dist in (3, 0x90):
        for d in (0, 3, 127):
            start = base + wlo + 0x200
            for wrapper in ("{\n%s}\n", ".macro mwb() {\n%s}\nmwb()\n", ".for qi := 0, 1 {\n%s}\n", ".scope nsb {\n%s}\n"):
                inner = f"{mn} tgt\n" + filler(d) + "tgt:\n.db 0xEA\n"
                src = f"*=0x{start:06x}\ntgt:\n" + filler(outer_dist) + (wrapper % inner)
                out = impl.assemble(src, rom=busname)
                n += 1
                exp = bytes(outer_dist) + bytes([op, d & 0xFF]) + bytes(d) + b"\xEA"
                if not out.accepted or out.blocks != [(ref.phys(start), exp)]:
                    viol.append({"key": "branch:wrong-displacement:forward-to-shadowing-label", "msg": f"{busname} d={d}: {out.brief()[-70:]} :: {src!r}"})
                    outcomes.add("SHADOW-WRONG")
                else:
                    outcomes.add("shadow-ok")
    return {"evals": n, "nt_count": n, "outcome": sorted(outcomes), "violations": viol[:8]}


def run_case(case):
    if case[0] == "extras":
        return run_extras(case[1], case[2])
    if case[0] == "two-mappings":
        return run_two_mappings(case[1], case[2])
    if case[0] == "rom":
        return run_rom(*case[1:])
    return run_ram(*case[1:])
