"""C04 - address mapping: offsets, mirrors and advance obey the bus laws.

Explicit-state exploration of the address space: a state is (bus, logical address), the
transition is `+n`.  Every state of the stated set is visited and compared with the reference
bus model (mc/ref/bus.py).
"""
from __future__ import annotations

import itertools

from mc import impl
from mc.ref import bus as refbus

ID = "C04"
LEVEL = "model_checking"
LEVEL_TEXT = ("Explicit-state exploration of the address space on the real Bus/Address objects: every (bus, address) "
              "state of the stated set (thorough: all 2^24 addresses of both built-in buses) and every `+n` transition "
              "from it is executed and compared with an independent bus model; a complete lattice of 432 `.map` "
              "configurations is explored the same way through both construction routes. The domain is finite, so within "
              "the bound this is a complete decision, which eight unit tests probing four addresses cannot give.")
LEVEL_NOTE = ("Trusted: mc/ref/bus.py (40 lines of arithmetic written from the property statement). Below-window addresses "
              "and advances leaving the declared range are outside the claim. `.map` windows other than 32K@0x8000 / 64K@0 "
              "are not explored.")
TECHNIQUE = "explicit-state enumeration of all address states and advance transitions against a reference bus model"
RULE = ("states = (bus, logical address) for every bank 0..255 of the built-in LoROM/HiROM buses and of a complete "
        "lattice of `.map` configurations (built through Bus.map and through real `.map` source lines); quick: "
        "boundary positions of every bank (first/last 4 in-window, below-window probes, stride 0x101 interior), "
        "thorough: all 2^24 addresses per built-in bus. transitions = `address + n` for n in a 12-value increment "
        "set from every boundary state (thorough: from every in-window ROM address), plus all ordered pairs (m,n) "
        "for the composition law. non-trivial = address lies in a mapped range (address cases) or the advance "
        "crosses a bank boundary (advance cases); each (bus,address[,n]) is visited once, so counts are distinct.")
ASSUMPTIONS = [
    "reference bus model mc/ref/bus.py (offset = (bank-first)*size + position in window; later .map declarations "
    "shadow earlier ones bank by bank, as the built-in HiROM map requires)",
    "addresses below a 32K window and advances that leave the declared range (incl. HiROM 7D->7E shadowed by RAM) "
    "are outside the claim and skipped",
]
INCS = [0, 1, 2, 3, 0xFF, 0x100, 0x7FFF, 0x8000, 0x8001, 0xFFFF, 0x10000, 0x10001]


def bound(tier):
    return ("all 2^24 addresses x 3 built-in ROM types; advance from every in-window ROM address x 12 increments; "
            "432 .map configurations x 3 construction routes (API, source, source with decimal/binary/upper-case numbers; every third one also inside the taken branch of an .if next to another layout in the branch not taken)" if tier == "thorough" else
            "boundary address set of every bank x 3 built-in ROM types; advance x 12 increments + 144 (m,n) pairs; "
            "432 .map configurations x 3 construction routes (API, source, source with decimal/binary/upper-case numbers; every third one also inside the taken branch of an .if next to another layout in the branch not taken)")


# ---- configuration lattice -------------------------------------------------------------

def lattice():
    cfgs = []
    for first, count, size, mirror, ram, two in itertools.product(
            (0x00, 0x40, 0x80), (1, 2, 0x30), (0x8000, 0x10000), ("none", "plus80", "disjoint"), (False, True, "mirrored", "ram32k"),
            (False, True)):
        last = first + count - 1
        if mirror == "none":
            mir = None
        elif mirror == "plus80":
            m0 = (first + 0x80) & 0xFF
            mir = (m0, m0 + count - 1)
        else:
            m0 = (first + count + 8) & 0xFF
            mir = (m0, m0 + count - 1)
        decls = [("1", (first, last), size, False, mir)]
        if two:
            decls.append(("3", (0xF0, 0xF3), 0x10000 if size == 0x8000 else 0x8000, False, None))
        if ram:
            # RAM range, optionally with its own mirror banks (mirror of RAM is RAM: no file offset, plain +n)
            if ram == "ram32k":
                # battery-backed RAM the LoROM way: 32K windows in banks 70-7D (RAM advances by plain +n whatever the window)
                decls.append(("2", (0x70, 0x7D), 0x8000, True, None))
            else:
                decls.append(("2", (0x7E, 0x7F), 0x10000, True, (0xEE, 0xEF) if ram == "mirrored" else None))
        cfgs.append(decls)
    return cfgs


def build_ref(decls):
    b = refbus.RefBus("cfg")
    for ident, banks, size, ram, mir in decls:
        b.map(ident, banks, size, ram=ram, mirror=mir)
    return b


def build_real_api(decls):
    from a816.cpu.mapping import Bus
    b = Bus("cfg")
    for ident, banks, size, ram, mir in decls:
        win = (0x8000, 0xFFFF) if size == 0x8000 else (0, 0xFFFF)
        if ram:
            b.map(ident, banks, win, mask=size, writeable=True, mirror_bank_range=mir)
        else:
            b.map(ident, banks, win, mask=size, mirror_bank_range=mir)
    return b


OTHER_LAYOUT = ".map identifier=9 bank_range=0x00, 0xff addr_range=0x0000, 0xffff mask=0x10000\n"


def build_real_source(decls, style="hex"):
    src = "\n".join(refbus.map_line(*d, style="hex" if style == "guarded" else style) for d in decls) + "\n"
    if style == "guarded":
        # the declarations stand in the TAKEN branch of a conditional; the branch not taken and a macro that is never applied
        # declare another layout, which must have no effect
        src = ".macro never() {\n" + OTHER_LAYOUT + "}\nsel := 0\n.if sel {\n" + OTHER_LAYOUT + "} else {\n" + src + "}\n"
    out = impl.assemble(src, keep_program=True)
    if not out.accepted:
        return None, src, out
    return out.program, src, out


def builtin_real(name):
    from a816.cpu.cpu_65c816 import RomType
    from a816.symbols import Resolver
    r = Resolver()
    r.rom_type = RomType[name]
    return r.get_bus()


# ---- case enumeration ------------------------------------------------------------------

def cases(tier, seed):
    for name in ("low_rom", "high_rom", "low_rom_2"):
        for bank in range(256):
            yield ("addr", name, bank, tier)
        for bank in range(256):
            yield ("adv", name, bank, tier)
    for i, _ in enumerate(lattice()):
        yield ("cfg", i, "api")
        yield ("cfg", i, "source")
        # the same declarations with the numbers spelled in decimal / binary / upper-case hex / mixed (one style per configuration)
        yield ("cfg", i, "source:" + ("dec", "bin", "HEX", "mixed")[i % 4])
        if i % 3 == 0:
            yield ("cfg", i, "source:guarded")
        if i % 3 == 1:
            yield ("cfg", i, "source:ident0")


def describe(case, res):
    d = {"case": list(case), "outcome": res.get("outcome")}
    if case[0] == "cfg":
        d["declarations"] = [refbus.map_line(*x) for x in lattice()[case[1]]]
    if res.get("note"):
        d["note"] = res["note"]
    return d


def boundary_addrs(bank, win_lo, size):
    hi = win_lo + size
    s = set()
    for k in range(4):
        s.add(win_lo + k)
        s.add(hi - 1 - k)
    s.update(range(win_lo + 0x55, hi, 0x101))
    s.update(a for a in (0, 1, 0x7FFE, 0x7FFF, 0x8000) if a < hi)
    return [(bank << 16) | a for a in sorted(s)]


def check_addresses(real, ref, addrs, viol, tag, getphys=None):
    """Compare get_address(a).physical with the reference for every address. Returns (evals, mapped)."""
    mapped = 0
    n = 0
    for a in addrs:
        n += 1
        try:
            exp = ref.phys(a)
            exp_kind = "ram" if exp is None else "rom"
            if exp_kind == "rom" and not ref.in_window(a):
                continue  # below the window: outside the claim
        except refbus.Unmapped:
            exp_kind = "unmapped"
        try:
            got = real.get_address(a).physical
            got_kind = "ram" if got is None else "rom"
        except Exception:  # noqa: BLE001
            got_kind = "unmapped"
            got = None
        if exp_kind != "unmapped":
            mapped += 1
        if exp_kind != got_kind:
            viol.append({"key": f"bus:{exp_kind}-address-treated-as-{got_kind}",
                         "msg": f"{tag}: address {a:#08x} expected {exp_kind}, implementation says {got_kind} ({got})"})
            if len(viol) > 20:
                break
        elif exp_kind == "rom" and exp != got:
            r = ref.rng(a)
            viol.append({"key": f"bus:wrong-offset-{r.kind}",
                         "msg": f"{tag}: address {a:#08x} expected offset {exp:#x}, got {got:#x}"})
            if len(viol) > 20:
                break
        if getphys is not None and exp_kind == "rom":
            try:
                g2 = getphys(a)
            except Exception as e:  # noqa: BLE001
                g2 = repr(e)
            if g2 != exp:
                viol.append({"key": "bus:get_physical_address-disagrees",
                             "msg": f"{tag}: Program.get_physical_address({a:#08x}) = {g2}, expected {exp:#x}"})
    return n, mapped


def check_advance(real, ref, states, incs, viol, tag, pairs=False):
    evals = 0
    crossing = 0
    for a in states:
        try:
            r = ref.rng(a)
        except refbus.Unmapped:
            continue
        if not r.ram and not ref.in_window(a):
            continue
        try:
            ra = real.get_address(a)
        except Exception:  # noqa: BLE001
            continue  # reported by the address pass
        for n in incs:
            exp = ref.advance(a, n)
            if exp is None:
                # outside the advance law - except that "unmapped banks are rejected": if the textbook result lies in a bank
                # that no declaration maps, the implementation must raise, or hand back an address that is itself rejected
                if not r.ram and n > 0:
                    off = ref.phys(a) + n
                    res = ref.from_offset(r, off)
                    if off >= r.nbanks * r.size and 0 <= (res >> 16) <= 0xFF and (res >> 16) not in ref.bank:
                        evals += 1
                        try:
                            got = ra + n
                            gp = got.physical
                            try:
                                real.get_address(got.logical_value)
                                still_mapped = True
                            except Exception:  # noqa: BLE001
                                still_mapped = False
                            if not still_mapped and gp is not None:
                                viol.append({"key": "bus:advance-into-unmapped-bank-accepted",
                                             "msg": f"{tag}: {a:#08x}+{n:#x} leaves the mapped range into unmapped bank {got.logical_value >> 16:#04x} "
                                                    f"but yields an address with file offset {gp:#x}"})
                        except Exception:  # noqa: BLE001
                            pass
                continue
            evals += 1
            if (exp >> 16) != (a >> 16):
                crossing += 1
            try:
                res = ra + n
                got = res.logical_value
                gphys = res.physical
            except Exception as e:  # noqa: BLE001
                viol.append({"key": "bus:advance-raises", "msg": f"{tag}: {a:#08x}+{n:#x} raised {e!r}"})
                continue
            if got != exp:
                key = "bus:advance-identity" if n == 0 else "bus:advance-wrong-address"
                viol.append({"key": key, "msg": f"{tag}: {a:#08x}+{n:#x} expected {exp:#08x}, got {got:#08x}"})
                if len(viol) > 20:
                    return evals, crossing
            elif not r.ram and gphys != ref.phys(a) + n:
                viol.append({"key": "bus:advance-offset", "msg": f"{tag}: offset of {a:#08x}+{n:#x} is {gphys}"})
            if pairs:
                for m in incs:
                    e2 = ref.advance(a, n + m)
                    if e2 is None or ref.advance(exp, m) is None:
                        continue
                    evals += 1
                    try:
                        g2 = ((ra + n) + m).logical_value
                        g3 = (ra + (n + m)).logical_value
                    except Exception as e:  # noqa: BLE001
                        viol.append({"key": "bus:advance-raises", "msg": f"{tag}: ({a:#08x}+{n:#x})+{m:#x} raised {e!r}"})
                        continue
                    if g2 != g3 or g2 != e2:
                        viol.append({"key": "bus:advance-composition",
                                     "msg": f"{tag}: ({a:#08x}+{n:#x})+{m:#x}={g2:#08x} vs +{n + m:#x}={g3:#08x}, expected {e2:#08x}"})
                        if len(viol) > 20:
                            return evals, crossing
    return evals, crossing


def run_case(case):
    viol = []
    kind = case[0]
    if kind in ("addr", "adv"):
        _, name, bank, tier = case
        real = builtin_real(name)
        ref = refbus.BUILTIN["low_rom" if name == "low_rom_2" else name]()  # low2 = the LoROM layout addressed through its mirror banks
        r = ref.bank.get(bank)
        win_lo, size = (r.win_lo, r.size) if r else (0, 0x10000)
        if kind == "addr":
            if tier == "thorough":
                addrs = range(bank << 16, (bank + 1) << 16)
            else:
                addrs = boundary_addrs(bank, win_lo, size)
            n, mapped = check_addresses(real, ref, addrs, viol, name)
            return {"evals": n, "nt_count": mapped, "state_count": n, "transitions": 0,
                    "outcome": ("unmapped" if r is None else ("ram" if r.ram else "rom-" + r.kind)),
                    "violations": viol}
        if r is None:
            return {"evals": 1, "nt_count": 0, "outcome": "adv-unmapped", "violations": viol}
        if tier == "thorough" and not r.ram:
            states = range((bank << 16) | win_lo, (bank << 16) | (win_lo + size))
            e1, c1 = check_advance(real, ref, states, INCS, viol, name)
            e2, c2 = check_advance(real, ref, boundary_addrs(bank, win_lo, size), INCS, viol, name, pairs=True)
            return {"evals": e1 + e2, "nt_count": c1, "transitions": e1 + e2, "outcome": "adv-" + r.kind,
                    "violations": viol}
        e, c = check_advance(real, ref, boundary_addrs(bank, win_lo, size), INCS, viol, name, pairs=True)
        return {"evals": e, "nt_count": c, "transitions": e, "outcome": "adv-" + ("ram" if r.ram else r.kind),
                "violations": viol}
    # .map configuration
    _, i, via = case
    decls = lattice()[i]
    ref = build_ref(decls)
    getphys = None
    if via == "api":
        real = build_real_api(decls)
    else:
        prog, src, out = build_real_source(decls, via.split(":")[1] if ":" in via else "hex")
        if prog is None:
            return {"evals": 1, "outcome": "map-source-rejected", "violations": [
                {"key": "bus:map-directive-rejected", "msg": f"`.map` source rejected: {out.brief()} :: {src}"}]}
        real = prog.resolver.get_bus()
        getphys = prog.get_physical_address
        if real is not prog.resolver.bus:
            viol.append({"key": "bus:map-directive-ignored", "msg": "program with .map lines still uses a built-in bus"})
    evals = nt = trans = 0
    banks = set()
    for b in ref.bank:
        banks.update((b - 1, b, b + 1))
    for bank in sorted(x for x in banks if 0 <= x <= 255):
        r = ref.bank.get(bank)
        if r is not None and r.kind == "primary" and r.nbanks > 4 and r.first + 2 <= bank <= r.last - 2 and bank % 7:
            continue  # interior banks of the 0x30-bank range: every 7th only (edges always)
        win_lo, size = (r.win_lo, r.size) if r else (0, 0x10000)
        addrs = boundary_addrs(bank, win_lo, size)
        n, mapped = check_addresses(real, ref, addrs, viol, f"cfg{i}/{via}", getphys)
        evals += n
        nt += mapped
        if r is not None:
            st = [a for a in addrs if (a & 0xFFFF) in (win_lo, win_lo + 1, win_lo + size - 1, win_lo + size - 2, win_lo + 0x55)]
            e, c = check_advance(real, ref, st, INCS, viol, f"cfg{i}/{via}", pairs=True)
            evals += e
            trans += e
            nt += c
    return {"evals": evals, "nt_count": nt, "state_count": evals - trans, "transitions": trans,
            "outcome": f"cfg-{via}", "violations": viol[:10]}
