"""Adapter to the real a816 code.

Everything here goes through the observation points named in properties.jsonl; the repo is
imported from $A816_REPO (default /repo), i.e. the current working tree.
"""
from __future__ import annotations

import io
import logging
import os
import shutil
import signal
import sys
import tempfile
import warnings

REPO = os.environ.get("A816_REPO", "/repo")
if REPO not in sys.path:
    sys.path.insert(0, REPO)


class Timeout(BaseException):
    """Raised by the watchdog; BaseException so that `except Exception` in the repo cannot eat it."""


def _on_alarm(signum, frame):
    raise Timeout()


_SCRATCH = None
_REAL_STDOUT = sys.stdout


def setup_worker(scratch: bool = True) -> None:
    """Silence the repo's prints/logging, install the watchdog, enter a private scratch dir."""
    global _SCRATCH
    logging.disable(logging.CRITICAL)
    warnings.simplefilter("ignore")
    sys.stdout = open(os.devnull, "w")
    signal.signal(signal.SIGALRM, _on_alarm)
    sys.setrecursionlimit(1000)
    if scratch:
        _SCRATCH = tempfile.mkdtemp(prefix="a816mc-")
        os.chdir(_SCRATCH)


def teardown_worker() -> None:
    global _SCRATCH
    if _SCRATCH:
        os.chdir("/")
        shutil.rmtree(_SCRATCH, ignore_errors=True)
        _SCRATCH = None


def guarded(fn, *args, timeout: float = 5.0, **kw):
    """Run fn under a wall-clock watchdog. Returns (True, value) or (False, 'timeout')."""
    signal.setitimer(signal.ITIMER_REAL, timeout)
    try:
        return True, fn(*args, **kw)
    except Timeout:
        return False, "timeout"
    finally:
        signal.setitimer(signal.ITIMER_REAL, 0)


class RecWriter:
    """Recording Writer: the (block, address) call sequence is the observation."""

    def __init__(self):
        self.blocks = []

    def begin(self):
        pass

    def write_block_header(self, block, block_address):
        pass

    def write_block(self, block, block_address):
        self.blocks.append((block_address, bytes(block)))

    def end(self):
        pass


class Outcome:
    __slots__ = ("status", "error", "blocks", "labels", "symbols", "exc_type", "program", "exc")

    def __init__(self):
        self.status = None  # 'ok' | 'err' (non-None return) | 'exc' (raised) | 'timeout'
        self.error = None
        self.blocks = []
        self.labels = []
        self.symbols = {}
        self.exc_type = None
        self.program = None
        self.exc = None

    @property
    def accepted(self):
        return self.status == "ok"

    @property
    def rejected(self):
        return self.status in ("err", "exc")

    def image(self):
        return image_of(self.blocks)

    def brief(self):
        if self.status == "ok":
            return "ok " + " ".join(f"{a:06x}:{b.hex()}" for a, b in self.blocks[:6])
        return f"{self.status} {self.exc_type or ''} {str(self.error)[:160]}"


def image_of(blocks):
    img = {}
    for addr, data in blocks:
        for i, b in enumerate(data):
            img[addr + i] = b
    return img


def write_files(files):
    if not files:
        return
    for name, data in files.items():
        d = os.path.dirname(name)
        if d:
            os.makedirs(d, exist_ok=True)
        mode = "wb" if isinstance(data, (bytes, bytearray)) else "w"
        with open(name, mode) as f:
            f.write(data)


def assemble(src: str, rom: str | None = None, filename: str = "m.s", files=None,
             timeout: float = 10.0, keep_program: bool = False) -> Outcome:
    """Assemble `src` through Program.assemble_string_with_emitter with a recording writer."""
    from a816.cpu.cpu_65c816 import RomType
    from a816.program import Program

    write_files(files)
    out = Outcome()
    w = RecWriter()
    signal.setitimer(signal.ITIMER_REAL, timeout)
    try:
        try:
            p = Program()
            if rom is not None:
                p.resolver.rom_type = RomType[rom]
            err = p.assemble_string_with_emitter(src, filename, w)
        finally:
            signal.setitimer(signal.ITIMER_REAL, 0)
        if err is None:
            out.status = "ok"
        else:
            out.status = "err"
            out.error = err
        try:
            out.labels = list(p.resolver.get_all_labels())
            out.symbols = dict(p.resolver.scopes[0].symbols)
        except Exception:  # pragma: no cover
            pass
        if keep_program:
            out.program = p
    except Timeout:
        out.status = "timeout"
    except BaseException as e:  # noqa: BLE001 - every exception is "rejected"
        if isinstance(e, (KeyboardInterrupt, SystemExit)):
            raise
        out.status = "exc"
        out.exc_type = type(e).__name__
        if keep_program:
            out.exc = e
        try:
            out.error = str(e)
        except Exception:  # pragma: no cover
            out.error = repr(e)
    out.blocks = w.blocks
    return out


def real_stdout():
    return _REAL_STDOUT
